#!/bin/bash
# usage: rerun_seeds.sh [seed-id...]   re-runs the seeded changes of /verif/seeded (all of them by default) against the
# check of their own property: applies the patch to /repo, runs ./check <property> quick, reverts the tree and the
# evidence directory (tools/try_mutant.sh). Prints one line per seed: DETECTED / MISSED. A full run takes hours.
cd /verif || exit 2
ids=("$@")
if [ ${#ids[@]} -eq 0 ]; then ids=($(ls seeded)); fi
rc=0
for id in "${ids[@]}"; do
  prop=$(python3 -c "import json;print(json.load(open('/verif/seeded/$id/meta.json'))['property'])")
  out=$(tools/try_mutant.sh /verif/seeded/$id/patch.diff $prop 2>&1)
  if echo "$out" | grep -q "^VIOLATION property=$prop"; then
    echo "DETECTED $id ($prop): $(echo "$out" | grep -m1 'failed obligation' | cut -c1-160)"
  else
    echo "MISSED   $id ($prop): $(echo "$out" | tail -1 | cut -c1-160)"; rc=1
  fi
done
exit $rc
