#!/usr/bin/env python3
# keep_seed.py <seed-id> <property> <patch> <demo> <needs> <detected_by> : stores a confirmed seeded change
import sys, json, shutil, os, subprocess
sid, prop, patch, demo, needs, detected = sys.argv[1:7]
d = '/verif/seeded/' + sid
os.makedirs(d, exist_ok=True)
shutil.copy(patch, d + '/patch.diff')
shutil.copy(demo, d + '/' + os.path.basename(demo))
conf = subprocess.run(['/verif/tools/confirm_seed.sh', patch, demo], capture_output=True, text=True).stdout.strip().splitlines()[-1]
meta = {"id": sid, "property": prop, "needs_to_manifest": needs, "demonstration": os.path.basename(demo),
        "confirmed": json.loads(conf),
        "what_i_ran": ["tools/confirm_seed.sh patch demo  (scratch worktree of /repo HEAD: go build ., go test . with the change => ok; go test -run Demo with the change => FAIL; without => ok)",
                       "tools/try_mutant.sh patch <property ids>  (git -C /repo apply; ./check <id> quick; git checkout -- .)"],
        "detected_by": detected, "base_commit": subprocess.run(['git','-C','/repo','rev-parse','--short','HEAD'],capture_output=True,text=True).stdout.strip()}
json.dump(meta, open(d + '/meta.json', 'w'), indent=1)
print(sid, meta['confirmed'])
