#!/bin/bash
# runs every claimed check (quick by default) on the unchanged tree, rewriting /verif/evidence
tier="${1:-quick}"
cd /verif || exit 2
rc=0
for id in $(python3 -c "import json;print(' '.join(c['property_id'] for c in json.load(open('/verif/MANIFEST.json'))['checks']))"); do
  ./check $id $tier | tail -1 || rc=1
done
exit $rc
