#!/usr/bin/env python3
# Regenerates /verif/MANIFEST.json from the table below and /verif/spec/properties_meta.json.
import json, subprocess
props = [json.loads(l) for l in open('/verif/properties.jsonl')]
meta = json.load(open('/verif/spec/properties_meta.json'))
hooks = subprocess.run(['git','-C','/repo','log','--format=%H %s'],capture_output=True,text=True).stdout.splitlines()
hook_commits = [l.split()[0] for l in hooks if l.split(' ',1)[1].startswith('verif hook')]
checks = []
na = []
for p in props:
    m = meta.get(p['id'])
    if not m or not m.get('claimed'):
        na.append({"property_id": p['id'], "reason": (m or {}).get('na_reason', "contracts designed (DESIGN.md section 4) but not yet discharged by gvc; not claimed until its obligations discharge")})
        continue
    checks.append({
        "property_id": p['id'],
        "quick_cmd": "./check %s quick" % p['id'],
        "thorough_cmd": "./check %s thorough" % p['id'],
        "evidence_file": "/verif/evidence/%s.json" % p['id'],
        "replay_cmd_template": "./check replay {path}",
        "engine": "gvc",
        "level_claimed": {"category": "proof", "text": m['level_text'], "design_ref": "DESIGN.md section 4, " + p['id']},
        "level_note": m['level_note'],
        "technique": "contract-based deductive verification: weakest-precondition style VCs generated from go/ssa of the real functions, contracts in /repo/verif_contracts.go, discharged by z3 / cvc5",
    })
man = {
 "version": 1,
 "setup_cmd": "cd /verif/gvc && cp /repo/go.sum . 2>/dev/null; GOFLAGS=-mod=mod GOPROXY=off GOSUMDB=off GOTOOLCHAIN=local go build -o /verif/bin/gvc .",
 "hooks": {"guard": "verif", "enable": "contracts are comment-only files verif_contracts*.go (//go:build verif); gvc loads /repo with -tags verif",
           "baseline_off_cmd": "cd /repo && GOFLAGS=-mod=mod go test -vet=off -count=1 .", "source_commits": hook_commits, "add_only": True},
 "engines": [{"name": "gvc", "path": "/verif/gvc", "serves_properties": [c['property_id'] for c in checks],
              "kind_free_text": "self-built deductive verifier for Go: VC generator over go/ssa (x/tools v0.29.0) with modular contracts; obligations discharged by a z3 5.1.0 / z3 4.8.12 / cvc5 1.0.3 portfolio"}],
 "checks": checks,
 "not_applicable": na,
 "notes": "see DESIGN.md; known findings in /verif/known_findings.json; fix commits in /repo start with 'fix:'",
}
json.dump(man, open('/verif/MANIFEST.json','w'), indent=1)
print(len(checks), "claimed;", len(na), "not applicable")
