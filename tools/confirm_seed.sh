#!/bin/bash
# usage: confirm_seed.sh <patch> <demo_test.go> -> confirms in a scratch worktree that the suite passes with the
# patch, the demo fails with it and passes without it. Prints a JSON summary.
export GOFLAGS=-mod=mod GOPROXY=off GOSUMDB=off GOTOOLCHAIN=local
patch="$1"; demo="$2"
wt=$(mktemp -d /tmp/seedwt.XXXXXX)
git -C /repo worktree add -q --detach "$wt" HEAD || exit 2
cd "$wt"
cp "$demo" "$wt/zz_seed_demo_test.go"
git apply "$patch" || { echo '{"error":"patch does not apply"}'; cd /; git -C /repo worktree remove --force "$wt"; exit 2; }
go build . >/dev/null 2>&1; build=$?
go test -vet=off -count=1 -timeout 120s -skip 'TestDemo|Demo' . >/tmp/seed_suite.log 2>&1; suite=$?
# the existing suite only (demo removed)
mv zz_seed_demo_test.go /tmp/zz_seed_demo_test.go.keep
go test -vet=off -count=1 -timeout 120s . >/tmp/seed_suite.log 2>&1; suite=$?
mv /tmp/zz_seed_demo_test.go.keep zz_seed_demo_test.go
go test -vet=off -count=1 -timeout 120s -run 'Demo' . >/tmp/seed_demo_with.log 2>&1; with=$?
git checkout -q -- .
go test -vet=off -count=1 -timeout 120s -run 'Demo' . >/tmp/seed_demo_without.log 2>&1; without=$?
echo "{\"build_with_change\": $build, \"suite_with_change\": $suite, \"demo_with_change\": $with, \"demo_without_change\": $without}"
cd /; git -C /repo worktree remove --force "$wt"; rm -rf "$wt"
