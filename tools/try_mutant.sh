#!/bin/bash
# usage: try_mutant.sh <patch> <property>...   applies the patch to /repo, runs the quick checks, reverts.
patch="$1"; shift
cd /repo || exit 2
if [ -n "$(git status --porcelain -- . ':!go.mod')" ]; then echo "repo not clean"; git status --short; exit 2; fi
git apply "$patch" || { echo "patch does not apply"; exit 2; }
for id in "$@"; do
  echo "== $id"
  ( cd /verif && timeout 1500 ./check $id quick 2>&1 | grep -E "^VIOLATION|^KNOWN|^property|TOOLING|STALE|VACUOUS|failed obligation" | cut -c1-260 )
done
git checkout -- . ; git status --short
