#!/bin/bash
# usage: try_mutant.sh <patch> <property>...   applies the patch to /repo, runs the quick checks, reverts.
patch="$1"; shift
cd /repo || exit 2
if [ -n "$(git status --porcelain -- . ':!go.mod')" ]; then echo "repo not clean"; git status --short; exit 2; fi
git apply "$patch" || { echo "patch does not apply"; exit 2; }
bak=$(mktemp -d /tmp/evbak.XXXXXX); cp -a /verif/evidence/. "$bak"/ 2>/dev/null
for id in "$@"; do
  echo "== $id"
  ( cd /verif && timeout 1500 ./check $id quick 2>&1 | grep -E "^VIOLATION|^KNOWN|^property|TOOLING|STALE|VACUOUS|failed obligation" | cut -c1-260 )
done
git checkout -- . ; git status --short
rm -rf /verif/evidence/*; cp -a "$bak"/. /verif/evidence/ 2>/dev/null; rm -rf "$bak"   # evidence of mutant runs is not kept
