package gmars

import (
	"strings"
	"testing"
)

// F11: a last line without a final newline is dropped silently by both load-file readers.
func TestF11(t *testing.T) {
	for _, mode := range []SimulatorMode{ICWS94, ICWS88} {
		cfg := ConfigNOP94
		text := "MOV.I $ 0, $ 1\nDAT.F # 0, # 0"
		if mode == ICWS88 {
			cfg = ConfigKOTH88
			text = "MOV $ 0, $ 1\nDAT # 0, # 0"
		}
		w, err := ParseLoadFile(strings.NewReader(text), cfg)
		if err != nil {
			t.Errorf("F11 mode %d: unexpected error %v", mode, err)
		} else if len(w.Code) != 2 {
			t.Errorf("F11 mode %d: %q has 2 instructions, reader returned %d without an error", mode, text, len(w.Code))
		}
	}
}

// F12: the '88 reader accepts a negative ORG argument.
func TestF12(t *testing.T) {
	w, err := ParseLoadFile(strings.NewReader("ORG -5\nMOV $ 0, $ 1\n"), ConfigKOTH88)
	if err == nil {
		t.Errorf("F12: 'ORG -5' accepted, Start == %d", w.Start)
	}
}

// F16: the '88 reader takes a bare 'org' as the end marker and silently drops the rest.
func TestF16(t *testing.T) {
	w, err := ParseLoadFile(strings.NewReader("MOV $ 0, $ 1\nORG\nDAT # 0, # 0\n"), ConfigKOTH88)
	if err == nil && len(w.Code) != 2 {
		t.Errorf("F16: bare 'ORG' line ended the read: %d of 2 instructions returned and no error", len(w.Code))
	}
}
