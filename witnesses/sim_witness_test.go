package gmars

import (
	"testing"
	"time"
)

func mkSim(t *testing.T, m Address) *reportSim {
	s, err := newReportSim(NewQuickConfig(ICWS94, m, 8, 100, 5))
	if err != nil {
		t.Fatal(err)
	}
	return s
}

var imp = &WarriorData{Code: []Instruction{{Op: MOV, OpMode: I, A: 0, B: 1}}}

func expectPanic(t *testing.T, name string, f func()) {
	defer func() {
		r := recover()
		t.Logf("%s: recovered=%v", name, r)
		if r != nil {
			t.Errorf("%s: PANIC %v", name, r)
		}
	}()
	f()
}

func TestF1(t *testing.T) {
	expectPanic(t, "F1 SpawnWarrior(0,23) on M=20 then RunCycle", func() {
		s := mkSim(t, 20)
		s.AddWarrior(imp)
		s.SpawnWarrior(0, 23)
		s.RunCycle()
	})
}
func TestF2a(t *testing.T) {
	expectPanic(t, "F2 GetWarrior(count)", func() { s := mkSim(t, 20); s.AddWarrior(imp); s.GetWarrior(1) })
}
func TestF2b(t *testing.T) {
	expectPanic(t, "F2 GetWarrior(-1)", func() { s := mkSim(t, 20); s.AddWarrior(imp); s.GetWarrior(-1) })
}
func TestF2c(t *testing.T) {
	expectPanic(t, "F2 SpawnWarrior(count,0)", func() { s := mkSim(t, 20); s.AddWarrior(imp); s.SpawnWarrior(1, 0) })
}
func TestF3(t *testing.T) {
	expectPanic(t, "F3 NextPC of never-spawned warrior", func() { s := mkSim(t, 20); w, _ := s.AddWarrior(imp); w.NextPC() })
}
func TestF4(t *testing.T) {
	done := make(chan bool)
	go func() { s := mkSim(t, 20); s.AddWarrior(imp); s.AddWarrior(imp); s.Run(); done <- true }()
	select {
	case <-done:
	case <-time.After(2 * time.Second):
		t.Errorf("F4: Run() with two warriors, none spawned, did not return within 2s")
	}
}
