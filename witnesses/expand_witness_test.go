package gmars

import (
	"strings"
	"testing"
	"time"
)

func expandHangs(t *testing.T, name, src string) {
	done := make(chan error, 1)
	go func() { _, err := CompileWarrior(strings.NewReader(src), ConfigNOP94); done <- err }()
	select {
	case err := <-done:
		t.Logf("%s: returned err=%v", name, err)
	case <-time.After(2 * time.Second):
		t.Errorf("%s: HANG", name)
	}
}

func TestExpandHangs(t *testing.T) {
	expandHangs(t, "F9 equ cycle + assert", "a equ b\nb equ a\n;assert a\nmov 0, 1\n")
	expandHangs(t, "F10 empty equ via comment", "x equ ;c\nmov x, 1\n")
	expandHangs(t, "F10 empty equ in assert", "x equ ;c\n;assert x\nmov 0, 1\n")
	expandHangs(t, "self cycle", "a equ a\nmov a, 1\n")
	expandHangs(t, "deep chain ok", "a equ b\nb equ c\nc equ d\nd equ 4\nmov a, 1\n")
}
