package gmars

import (
	"strings"
	"testing"
)

// F8: a run of unary minus signs is folded to one minus regardless of its parity.
func TestF8(t *testing.T) {
	for _, tc := range []struct {
		src  string
		want Address
	}{
		{"dat 2*--3\n", 6},    // 2 * (-(-3)) == 6
		{"dat 1 - - - 1\n", 0}, // 1 - (-(-1)) == 0
		{"dat 0+---1\n", 7999}, // -1 mod 8000
		{"dat 0+----1\n", 1},
	} {
		w, err := CompileWarrior(strings.NewReader(tc.src), ConfigNOP94)
		if err != nil {
			t.Errorf("F8 %q: %v", strings.TrimSpace(tc.src), err)
			continue
		}
		if got := w.Code[0].B; got != tc.want {
			t.Errorf("F8 %q: B-field %d, want %d", strings.TrimSpace(tc.src), got, tc.want)
		}
	}
}
