package gmars

import (
	"strings"
	"testing"
)

// F17: a source text whose last character is a lone '=', '|' or '&' was accepted as if the character were absent
// (lexInput consumed it, met the end of the input and sent EOF; the error state was never entered).
func TestWitnessF17TrailingLoneSymbol(t *testing.T) {
	for _, src := range []string{"=", "mov 0, 1 =", "mov 0, 1\n|", "mov 0, 1 &"} {
		w, err := CompileWarrior(strings.NewReader(src), ConfigNOP94)
		if err == nil {
			t.Errorf("%q: accepted with %d instruction(s), want an error", src, len(w.Code))
		}
	}
}
