package gmars

import "testing"

type recRep struct{ reps []Report }

func (r *recRep) Report(x Report) { r.reps = append(r.reps, x) }

// F13: a task changes a cell that no Write/Increment/Decrement report names.
func TestF13(t *testing.T) {
	for _, tc := range []struct {
		name string
		ins  Instruction
	}{
		{"A-operand post-increment  MOV.I }1, $2", Instruction{Op: MOV, OpMode: I, AMode: A_INCREMENT, A: 1, BMode: DIRECT, B: 2}},
		{"A-operand post-increment  MOV.I >1, $2", Instruction{Op: MOV, OpMode: I, AMode: B_INCREMENT, A: 1, BMode: DIRECT, B: 2}},
		{"B-operand pre-decrement   MOV.I $0, <1", Instruction{Op: MOV, OpMode: I, AMode: DIRECT, A: 0, BMode: B_DECREMENT, B: 1}},
		{"B-operand pre-decrement   MOV.I $0, {1", Instruction{Op: MOV, OpMode: I, AMode: DIRECT, A: 0, BMode: A_DECREMENT, B: 1}},
	} {
		s, _ := newReportSim(NewQuickConfig(ICWS94, 20, 8, 100, 5))
		rec := &recRep{}
		s.AddReporter(rec)
		s.AddWarrior(&WarriorData{Code: []Instruction{tc.ins, {Op: DAT, A: 5, B: 5}}})
		s.SpawnWarrior(0, 0)
		before := append([]Instruction{}, s.mem...)
		rec.reps = nil
		s.RunCycle()
		named := map[Address]bool{}
		for _, r := range rec.reps {
			if r.Type == WarriorWrite || r.Type == WarriorIncrement || r.Type == WarriorDecrement {
				named[r.Address] = true
			}
		}
		for a := range s.mem {
			if s.mem[a] != before[a] && !named[Address(a)] {
				t.Errorf("F13 %s: cell %d changed (%v -> %v) but no write/increment/decrement report names it", tc.name, a, before[a], s.mem[a])
			}
		}
	}
}
