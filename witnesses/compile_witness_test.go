package gmars

import (
	"strings"
	"testing"
)

// F5: an entry point equal to the code length is accepted.
func TestF5(t *testing.T) {
	w, err := CompileWarrior(strings.NewReader("org 1\nmov 0, 1\n"), ConfigNOP94)
	if err == nil && w.Start >= len(w.Code) {
		t.Errorf("F5: 'org 1' with one instruction accepted: Start == %d, len(Code) == %d", w.Start, len(w.Code))
	}
}

// F6: a program longer than the configured maximum length is accepted.
func TestF6(t *testing.T) {
	cfg := ConfigNopNano // Length 5
	w, err := CompileWarrior(strings.NewReader(strings.Repeat("mov 0, 1\n", 7)), cfg)
	if err == nil {
		t.Errorf("F6: %d instructions accepted under Length == %d", len(w.Code), cfg.Length)
	}
}

// F7: '94-only addressing modes are accepted under the ICWS'88 rule set.
func TestF7(t *testing.T) {
	for _, src := range []string{"mov *1, 2\n", "jmp }1\n", "add #1, {2\n"} {
		w, err := CompileWarrior(strings.NewReader(src), ConfigKOTH88)
		if err == nil {
			t.Errorf("F7: %q accepted in '88 mode: %v", strings.TrimSpace(src), w.Code[0])
		}
	}
}
