package gmars

import (
	"runtime"
	"strings"
	"testing"
	"time"
)

func forLeak(t *testing.T, name, src string) {
	before := runtime.NumGoroutine()
	done := make(chan struct{})
	go func() {
		defer close(done)
		_, err := CompileWarrior(strings.NewReader(src), ConfigNOP94)
		t.Logf("%s: err=%v", name, err)
	}()
	select {
	case <-done:
	case <-time.After(2 * time.Second):
		t.Errorf("%s: CompileWarrior did not return", name)
		return
	}
	time.Sleep(50 * time.Millisecond)
	if after := runtime.NumGoroutine(); after != before {
		t.Errorf("%s: goroutines before=%d after=%d (the FOR expander's goroutine is blocked on a send nobody receives)", name, before, after)
	}
}

// F15: inputs on which the FOR expander sends a token after its error / EOF token
func TestForExpanderLeaks(t *testing.T) {
	forLeak(t, "rof at end of input without newline", "i for 2\nmov 0, i\nrof")
	forLeak(t, "bad FOR count", "i for x+\nmov 0, i\nrof\n")
	forLeak(t, "lexer error inside the block", "i for 2\nmov 0, =1\nrof\n")
	forLeak(t, "lexer error after the block", "i for 1\nmov 0, 1\nrof\nmov 0, =1\n")
	forLeak(t, "lexer error in the FOR line", "i for =1\nmov 0, 1\nrof\n")
	forLeak(t, "label followed by a comma", "x , \ni for 2\nmov 0, 1\nrof\n")
	forLeak(t, "plain block (control)", "i for 2\nmov 0, i\nrof\n")
}
