package main

import "fmt"

// Counterexample replay (DESIGN 2.13). Filled in per state family.

func tryReplay(p *Program, id, obl string, bad []*Obl, doc map[string]interface{}) bool {
	return false
}

func runReplay(path string) int {
	fmt.Println("replay of", path, ": no replay builder for this obligation (no-failing-input-found)")
	return 0
}
