package main

import (
	"encoding/json"
	"fmt"
	"os"
	"path/filepath"
	"regexp"
	"strings"
)

// Counterexample replay (DESIGN 2.13): see rac.go for the machinery.

var clauseNo = regexp.MustCompile(`\[#(\d+)`)

func relevantTags(tags []string, id string) bool { return len(tags) == 0 || hasTag(tags, id) }

// tryReplay looks for a real execution of the obligation's function on which a clause of its
// contract that belongs to property id is false (or which panics although the contract excludes it).
func tryReplay(p *Program, id, obl string, bad []*Obl, doc map[string]interface{}) bool {
	if !racEnabled() || len(bad) == 0 {
		return false
	}
	fnName := bad[0].Func
	if strings.HasPrefix(fnName, "lemma") || fnName == "" {
		return false
	}
	res := racFunction(p, fnName)
	doc["replay_search"] = map[string]interface{}{"function": fnName, "executions": res.Tries, "legal_inputs": res.Legal, "notes": res.Note,
		"method": "the real function is run on generated inputs (go test -overlay); each execution's object graph before/after is turned into ground facts and the contract clauses are decided on them by the verifier's own evaluator; only unsat answers count"}
	want := ""
	if m := clauseNo.FindStringSubmatch(obl); m != nil && bad[0].Kind == "post" {
		want = "#" + m[1] + "."
	}
	var pick *racRefuted
	for i := range res.Refuted {
		r := &res.Refuted[i]
		if !relevantTags(r.Tags, id) {
			continue
		}
		if pick == nil {
			pick = r
		}
		if want != "" && strings.HasPrefix(r.Clause, want) {
			pick = r
			break
		}
	}
	if pick == nil {
		return false
	}
	doc["reproduced_by"] = map[string]interface{}{"function": fnName, "kind": pick.Kind, "clause": pick.Clause, "clause_tags": pick.Tags, "panic": pick.Panic,
		"try": pick.Try, "seed": pick.Seed, "input": pick.Pre}
	doc["note"] = "the obligation is no longer discharged, and the real code violates the contract clause above on the recorded input; `check replay <this file>` runs that input again"
	return true
}

func runReplay(path string) int {
	data, err := os.ReadFile(path)
	if err != nil {
		fmt.Fprintln(os.Stderr, "replay:", err)
		return 2
	}
	var doc struct {
		Property   string `json:"property"`
		Obligation string `json:"obligation"`
		Outcome    string `json:"outcome"`
		By         *struct {
			Function string `json:"function"`
			Kind     string `json:"kind"`
			Clause   string `json:"clause"`
			Try      int    `json:"try"`
			Seed     int64  `json:"seed"`
		} `json:"reproduced_by"`
	}
	if err := json.Unmarshal(data, &doc); err != nil {
		fmt.Fprintln(os.Stderr, "replay:", err)
		return 2
	}
	if doc.By == nil {
		fmt.Printf("replay of %s: obligation %s has no recorded failing input (no-failing-input-found); re-run the property check to see whether it is still undischarged\n", path, doc.Obligation)
		return 0
	}
	p, err := loadProgram()
	if err != nil {
		fmt.Fprintln(os.Stderr, "TOOLING-ERROR: load:", err)
		return 2
	}
	fn := p.funcs[doc.By.Function]
	fc := p.cs.Funcs[doc.By.Function]
	if fn == nil || fc == nil {
		fmt.Printf("replay: function %s is no longer under contract\n", doc.By.Function)
		return 2
	}
	dir, err := os.MkdirTemp(workDir, "replay")
	if err != nil {
		fmt.Fprintln(os.Stderr, "replay:", err)
		return 2
	}
	defer os.RemoveAll(dir)
	overlay, err := racHarnessFiles(fn, dir)
	if err != nil {
		fmt.Fprintln(os.Stderr, "replay:", err)
		return 2
	}
	out := filepath.Join(dir, "tries.jsonl")
	log, _ := racRunHarness(overlay, out, doc.By.Try+1, doc.By.Seed, doc.By.Try)
	ts := racReadTries(out)
	if len(ts) != 1 {
		fmt.Printf("replay: the harness did not run the recorded input: %s\n", lastLines(log, 5))
		return 2
	}
	t := ts[0]
	legal, refuted, note := racEval(p, fn, fc, t)
	if !legal {
		fmt.Printf("replay of %s: input no longer accepted by the contract's requires (%s)\n", path, note)
		return 0
	}
	if doc.By.Kind == "hang" {
		if t.Hung {
			fmt.Printf("REPRODUCED property=%s: %s does not return on the recorded input (3 s deadline)\n", doc.Property, doc.By.Function)
			return 1
		}
		fmt.Printf("replay of %s: %s returns on the recorded input now\n", path, doc.By.Function)
		return 0
	}
	if doc.By.Kind == "panic" {
		if t.Panic != "" {
			fmt.Printf("REPRODUCED property=%s: %s panics on the recorded input: %s\n", doc.Property, doc.By.Function, t.Panic)
			return 1
		}
		fmt.Printf("replay of %s: %s no longer panics on the recorded input\n", path, doc.By.Function)
		return 0
	}
	for _, c := range refuted {
		if c.text == doc.By.Clause {
			fmt.Printf("REPRODUCED property=%s: on the recorded input the real %s violates ensures %s\n", doc.Property, doc.By.Function, c.text)
			return 1
		}
	}
	fmt.Printf("replay of %s: clause %s holds on the recorded input now\n", path, doc.By.Clause)
	return 0
}
