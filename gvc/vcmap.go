package main

import (
	"go/types"

	"golang.org/x/tools/go/ssa"
)

// Maps are not modelled yet (DESIGN 2.2): functions using them are outside the subset.

func (e *Enc) mapLen(mt *types.Map, v Term, st *State) Term {
	panic(unsupported{"len of map"})
}

func (e *Enc) mapLookup(x *ssa.Lookup, st *State) {
	panic(unsupported{"map lookup"})
}

func (e *Enc) mapUpdate(x *ssa.MapUpdate, st *State) {
	panic(unsupported{"map update"})
}

func (e *Enc) makeMap(x *ssa.MakeMap, st *State) {
	panic(unsupported{"make(map)"})
}
