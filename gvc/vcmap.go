package main

// Maps: a map value is a reference m; per map type there are two heap arrays,
//   MD.<K>.<V> : Array Int (Array K Bool)   the key set of map m
//   MV.<K>.<V> : Array Int (Array K V)      the value stored under each key
// A nil map (reference 0) has the empty key set. Iteration order is arbitrary.

import (
	"go/types"

	"golang.org/x/tools/go/ssa"
)

func (e *Enc) mapSorts(mt *types.Map) (dName, vName, kSort, vSort, dSort, vArrSort string) {
	dName, vName = mapHeapNames(mt)
	kSort = e.reg.sortOf(mt.Key())
	vSort = e.reg.sortOf(mt.Elem())
	dSort = arrSort(arrSort2(kSort, sBool))
	vArrSort = arrSort(arrSort2(kSort, vSort))
	heapTypeMu.Lock()
	mapElemTypes[vName] = mt.Elem()
	mapKeySorts[vName] = kSort
	heapTypeMu.Unlock()
	return
}

var mapElemTypes = map[string]types.Type{}
var mapKeySorts = map[string]string{}

func (e *Enc) mapDom(mt *types.Map, m Term, st *State) Term {
	dName, _, kSort, _, dSort, _ := e.mapSorts(mt)
	h := st.heapGet(e, dName, dSort)
	return Term{app("select", h.S, m.S), arrSort2(kSort, sBool)}
}

func (e *Enc) mapVals(mt *types.Map, m Term, st *State) Term {
	_, vName, kSort, vSort, _, vArrSort := e.mapSorts(mt)
	h := st.heapGet(e, vName, vArrSort)
	return Term{app("select", h.S, m.S), arrSort2(kSort, vSort)}
}

func (e *Enc) mapLen(mt *types.Map, v Term, st *State) Term {
	e.usedUF["maplen"] = true
	d := e.mapDom(mt, v, st)
	_ = d
	t := e.havoc("maplen", sInt)
	e.assume(tAnd(Term{app(">=", t.S, "0"), sBool}, Term{app("<=", t.S, "72057594037927936"), sBool})) // a map has fewer entries than there is memory
	return t
}

func (e *Enc) mapHas(mt *types.Map, m, k Term, st *State) Term {
	return tAnd(tNot(tEq(m, tInt(0))), Term{app("select", e.mapDom(mt, m, st).S, k.S), sBool})
}

func (e *Enc) mapGet(mt *types.Map, m, k Term, st *State) Term {
	_, _, _, vSort, _, _ := e.mapSorts(mt)
	return Term{app("select", e.mapVals(mt, m, st).S, k.S), vSort}
}

func (e *Enc) mapLookup(x *ssa.Lookup, st *State) {
	mt := x.X.Type().Underlying().(*types.Map)
	m := e.term(x.X)
	k := e.term(x.Index)
	has := e.def("maphas", e.mapHas(mt, m, k, st))
	val := e.def("mapval", tIte(has, e.mapGet(mt, m, k, st), e.reg.zero(mt.Elem())))
	e.assumeTyped(mt.Elem(), val, st)
	if x.CommaOk {
		e.vals[x] = Val{Tuple: []Val{{T: val}, {T: has}}}
		return
	}
	e.vals[x] = Val{T: val}
}

func (e *Enc) mapUpdate(x *ssa.MapUpdate, st *State) {
	mt := x.Map.Type().Underlying().(*types.Map)
	m := e.term(x.Map)
	k := e.term(x.Key)
	v := e.term(x.Value)
	e.safety("nilmap", tNot(tEq(m, tInt(0))), x.Pos())
	dName, vName, _, _, dSort, vArrSort := e.mapSorts(mt)
	if e.fc != nil {
		cond := e.allowedWrite(dName, m, nil)
		if cond.S != "true" {
			e.oblige("frame", e.p.srcLine(x.Pos()), e.fc.frameTags(), cond, x.Pos())
		}
	}
	hd := st.heapGet(e, dName, dSort)
	hv := st.heapGet(e, vName, vArrSort)
	st.heap[dName] = e.def(dName, tStore(hd, m, Term{app("store", app("select", hd.S, m.S), k.S, "true"), ""}))
	st.heap[vName] = e.def(vName, tStore(hv, m, Term{app("store", app("select", hv.S, m.S), k.S, v.S), ""}))
}

func (e *Enc) makeMap(x *ssa.MakeMap, st *State) {
	mt := x.Type().Underlying().(*types.Map)
	r := e.def("newmap", st.alloc)
	st.alloc = e.def("alloc", Term{app("+", st.alloc.S, "1"), sInt})
	dName, _, kSort, _, dSort, _ := e.mapSorts(mt)
	hd := st.heapGet(e, dName, dSort)
	empty := Term{app("(as const "+arrSort2(kSort, sBool)+")", "false"), ""}
	st.heap[dName] = e.def(dName, tStore(hd, r, empty))
	e.vals[x] = Val{T: r}
}
