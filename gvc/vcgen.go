package main

// Verification-condition generation for one SSA function (DESIGN.md 2.3-2.6).

import (
	"fmt"
	"go/constant"
	"go/token"
	"go/types"
	"os"
	"sort"
	"strings"
	"sync"

	"golang.org/x/tools/go/ssa"
)

// ---------- program-level information ----------

type ufDecl struct {
	args []string
	res  string
}

type Program struct {
	prog     *ssa.Program
	fset     *token.FileSet
	cs       *Contracts
	funcs    map[string]*ssa.Function // by contract name
	typePkgs []*types.Package
	ufs      map[string]ufDecl
	srcLines map[string][]string

	allFuncs    []*ssa.Function // the functions of package gmars
	fnValues    []*ssa.Function // those whose value is taken (candidates of dynamic calls)
	fnValOnce   sync.Once
	closureSigs []*types.Signature // signatures of the closures created in the package
}

func funcName(f *ssa.Function) string {
	if f == nil {
		return "<nil>"
	}
	qual := func(p *types.Package) string {
		if p == nil || p.Name() == "gmars" {
			return ""
		}
		return p.Name()
	}
	if recv := f.Signature.Recv(); recv != nil {
		return "(" + types.TypeString(recv.Type(), qual) + ")." + f.Name()
	}
	if f.Pkg != nil && f.Pkg.Pkg.Name() != "gmars" {
		if f.Pkg.Pkg.Name() == "main" {
			return "main." + f.Name()
		}
		return f.Pkg.Pkg.Name() + "." + f.Name()
	}
	if f.Pkg == nil && f.Object() != nil && f.Object().Pkg() != nil {
		return f.Object().Pkg().Name() + "." + f.Name()
	}
	return f.Name()
}

func (p *Program) typeByText(s string) types.Type {
	s = strings.TrimSpace(s)
	switch s {
	case "int", "":
		return nil
	case "bool":
		return nil
	}
	if strings.HasPrefix(s, "*") {
		if t := p.typeByText(s[1:]); t != nil {
			return types.NewPointer(t)
		}
		return nil
	}
	if strings.HasPrefix(s, "[]") {
		if t := p.typeByText(s[2:]); t != nil {
			return types.NewSlice(t)
		}
		return nil
	}
	if s == "string" {
		return types.Typ[types.String]
	}
	for _, pkg := range p.typePkgs {
		if obj := pkg.Scope().Lookup(s); obj != nil {
			if tn, ok := obj.(*types.TypeName); ok {
				return tn.Type()
			}
		}
	}
	return nil
}

var srcMu sync.Mutex

func (p *Program) srcLine(pos token.Pos) string {
	if !pos.IsValid() {
		return ""
	}
	srcMu.Lock()
	defer srcMu.Unlock()
	ps := p.fset.Position(pos)
	lines, ok := p.srcLines[ps.Filename]
	if !ok {
		data, err := os.ReadFile(ps.Filename)
		if err == nil {
			lines = strings.Split(string(data), "\n")
		}
		p.srcLines[ps.Filename] = lines
	}
	if ps.Line-1 < len(lines) && ps.Line >= 1 {
		return strings.Join(strings.Fields(lines[ps.Line-1]), " ")
	}
	return ""
}

// ---------- state ----------

type State struct {
	heap   map[string]Term
	locals map[*ssa.Alloc]Term
	alloc  Term
	sfx    string // replay only: heaps of this state are the constants <name><sfx>
}

func (s *State) clone() *State {
	n := &State{heap: make(map[string]Term, len(s.heap)), locals: make(map[*ssa.Alloc]Term, len(s.locals)), alloc: s.alloc}
	for k, v := range s.heap {
		n.heap[k] = v
	}
	for k, v := range s.locals {
		n.locals[k] = v
	}
	return n
}

func (s *State) heapGet(e *Enc, name, srt string) Term {
	if t, ok := s.heap[name]; ok {
		return t
	}
	if s.sfx != "" {
		t := Term{sanitize(name) + s.sfx, srt}
		if e.extraDecls == nil {
			e.extraDecls = map[string]string{}
		}
		e.extraDecls[t.S] = srt
		s.heap[name] = t
		return t
	}
	return e.heapInit(name, srt)
}

// heap cell types by heap name (the same name always has the same type)
var heapTypeMu sync.Mutex
var heapTypes = map[string]types.Type{}

func fieldHeapName(si *structInfo, k int) string {
	n := "H." + si.goName + "." + si.fields[k].name
	heapTypeMu.Lock()
	heapTypes[n] = si.fields[k].typ
	heapTypeMu.Unlock()
	return n
}

func elemHeapName(t types.Type) string {
	n := "E." + typeKey(t)
	heapTypeMu.Lock()
	heapTypes[n] = t
	heapTypeMu.Unlock()
	return n
}

// heapTyping returns the axiom that every cell of heap array h (a whole-array
// symbol: an initial version or a havocked one) holds a value of its Go type.
func (e *Enc) heapTyping(name string, h Term) string {
	return e.heapTypingAlloc(name, h, "")
}

// refsBelow: every reference held in value v of type t is below alloc.
func (e *Enc) refsBelow(t types.Type, v Term, alloc string) Term {
	switch u := t.Underlying().(type) {
	case *types.Pointer, *types.Map, *types.Chan:
		return Term{app("<", v.S, alloc), sBool}
	case *types.Slice:
		return Term{app("<", app("Slice_arr", v.S), alloc), sBool}
	case *types.Struct:
		si := e.reg.structOf(t)
		var fs []Term
		for i, f := range si.fields {
			fs = append(fs, e.refsBelow(f.typ, si.get(v, i), alloc))
		}
		_ = u
		return tAnd(fs...)
	}
	return tTrue
}

// heapTypingAlloc: typing axiom of a whole heap array for allocated objects; with
// alloc != "" also the heap-model axiom that every reference stored in an allocated
// object is below that allocation counter. (Cells of not yet allocated objects are
// left unconstrained: they stand for the contents the object will be created with.)
func (e *Enc) heapTypingAlloc(name string, h Term, alloc string) string {
	heapTypeMu.Lock()
	t := heapTypes[name]
	mvT, mvK := mapElemTypes[name], mapKeySorts[name]
	heapTypeMu.Unlock()
	if strings.HasPrefix(name, "MV.") && mvT != nil && alloc != "" {
		// values stored in a map: Go values of their type whose references are allocated
		cell := Term{app("select", app("select", h.S, "r!"), "k!"), e.reg.sortOf(mvT)}
		f := tAnd(e.reg.rangeFact(mvT, cell), e.refsBelow(mvT, cell, alloc))
		if f.S == "true" {
			return ""
		}
		return fmt.Sprintf("(assert (forall ((r! Int) (k! %s)) (! (=> (and (<= 0 r!) (< r! %s)) %s) :pattern (%s))))", mvK, alloc, f.S, cell.S)
	}
	if t == nil {
		return ""
	}
	guard := func(f Term) Term {
		if alloc == "" {
			return f
		}
		return tImp(Term{"(and (<= 0 r!) (< r! " + alloc + "))", sBool}, f)
	}
	if strings.HasPrefix(name, "E.") {
		cell := Term{app("select", app("select", h.S, "r!"), "i!"), e.reg.sortOf(t)}
		f := e.reg.rangeFact(t, cell)
		if alloc != "" {
			f = tAnd(f, e.refsBelow(t, cell, alloc))
		}
		if f.S == "true" {
			return ""
		}
		return fmt.Sprintf("(assert (forall ((r! Int) (i! Int)) (! %s :pattern (%s))))", guard(f).S, cell.S)
	}
	cell := Term{app("select", h.S, "r!"), e.reg.sortOf(t)}
	f := e.reg.rangeFact(t, cell)
	if alloc != "" {
		f = tAnd(f, e.refsBelow(t, cell, alloc))
	}
	if f.S == "true" {
		return ""
	}
	return fmt.Sprintf("(assert (forall ((r! Int)) (! %s :pattern (%s))))", guard(f).S, cell.S)
}

func (e *Enc) heapTypingOld(name string, h Term) string {
	heapTypeMu.Lock()
	t := heapTypes[name]
	heapTypeMu.Unlock()
	if t == nil {
		return ""
	}
	if strings.HasPrefix(name, "E.") {
		cell := Term{app("select", app("select", h.S, "r!"), "i!"), e.reg.sortOf(t)}
		f := e.reg.rangeFact(t, cell)
		if f.S == "true" {
			return ""
		}
		return fmt.Sprintf("(assert (forall ((r! Int) (i! Int)) (! %s :pattern (%s))))", f.S, cell.S)
	}
	cell := Term{app("select", h.S, "r!"), e.reg.sortOf(t)}
	f := e.reg.rangeFact(t, cell)
	if f.S == "true" {
		return ""
	}
	return fmt.Sprintf("(assert (forall ((r! Int)) (! %s :pattern (%s))))", f.S, cell.S)
}

// ---------- locations (pointer values are generation-time descriptors) ----------

type pathStep struct {
	field int // field index, or -1 for array index
	si    *structInfo
	idx   Term
}

type Loc struct {
	kind     int // 0 local cell, 1 heap field, 2 slice/array element, 3 global
	alloc    *ssa.Alloc
	heapName string
	heapSort string
	ref      Term // object reference (kind 1), backing array (kind 2)
	idx      Term // element index (kind 2)
	path     []pathStep
	typ      types.Type // type of the value stored at base (before path)
}

type Val struct {
	T     Term
	Loc   *Loc
	Tuple []Val
}

// ---------- obligations ----------

type Obl struct {
	ID       int
	Name     string
	Kind     string
	Tags     []string
	Func     string
	Text     string
	Pos      string
	obSym    string
	okPre    string
	terminal bool
	// results
	Result string
	Solver string
	TimeS  float64
	Model  string
	Case   string
}

// ---------- encoder ----------

type loopInfo struct {
	header  *ssa.BasicBlock
	blocks  map[*ssa.BasicBlock]bool
	ord     int
	lc      *LoopC
	snap    *State            // state at header after havoc
	phiSnap map[*ssa.Phi]Term // header phi values after havoc
	varSnap []Term            // variant values at header
	guard   Term
	unknown bool // the contract has no clauses for this loop (weakest contract assumed)
}

type Enc struct {
	p   *Program
	fn  *ssa.Function
	fc  *FuncC
	reg *TypeReg

	lines   []string
	nameCtr map[string]int
	inQuant int
	usedUF  map[string]bool

	heapInits      map[string]Term
	extraDecls     map[string]string
	keepDefs       bool
	rangeMaps      map[*ssa.Range]*types.Map
	racRunes       []int64
	vals           map[ssa.Value]Val
	outState       map[*ssa.BasicBlock]*State
	edgeGuard      map[[2]int]Term
	blockG         map[*ssa.BasicBlock]Term
	init           *State
	obls           []*Obl
	okCur          string
	oblCtr         map[string]int
	loops          map[*ssa.BasicBlock]*loopInfo
	backEdge       map[[2]int]bool
	debugVals      map[string][]ssa.Value
	params         map[string]CVal
	warnings       []string
	mulSeen        map[string]bool
	curGuard       Term
	curState       *State
	curBlock       *ssa.BasicBlock
	modRefs        []modRef // evaluated modifies targets (in the pre-state)
	panicTags      []string
	mode           string // "body" or "lemma"
	checked        map[string]*ssa.BasicBlock
	ufArith        bool
	terminal       bool
	known          map[string]string // expanded term -> numeral, fixed by the split case
	defs           map[string]string
	expanded       map[string]string
	caseVals       []int64 // values of the split expressions in this case (nil = no specialisation)
	caseRest       bool    // the remainder case: some split expression outside its range
	caseLabel      string
	phase          int // 0: no cut; 1: up to the cut; 2: from the cut
	cutInstr       ssa.Instruction
	quiet          bool // phase 2 before the cut: bind values, emit no obligations / assumptions
	splits         []SplitSpec
	scratchLocals  map[*ssa.Alloc]Term
	specVals       map[string]CVal
	retGuards      []Term
	boxDecls       map[string]string // box function name -> argument sort
	clauseSeen     map[string]bool   // iteration / exit clauses: evaluated on at least one path?
	defaultExterns map[string]bool   // library functions used through the default assumed contract
	usedSend       bool
	staticSelf     map[string]types.Type // parameter types of the interface method being called (for loop write sets)
}

type modRef struct {
	t        Target
	heapName string
	heapSort string
	all      bool
	elems    bool
	ref      Term  // object ref / array ref
	idx      *Term // single element (elems targets only)
	wild     bool
	wildCond func(r Term) Term
}

func newEnc(p *Program, fn *ssa.Function, fc *FuncC) *Enc {
	e := &Enc{p: p, fn: fn, fc: fc, reg: newTypeReg(), nameCtr: map[string]int{}, usedUF: map[string]bool{},
		heapInits: map[string]Term{}, vals: map[ssa.Value]Val{}, outState: map[*ssa.BasicBlock]*State{},
		edgeGuard: map[[2]int]Term{}, blockG: map[*ssa.BasicBlock]Term{}, oblCtr: map[string]int{},
		loops: map[*ssa.BasicBlock]*loopInfo{}, backEdge: map[[2]int]bool{}, debugVals: map[string][]ssa.Value{},
		params: map[string]CVal{}, mulSeen: map[string]bool{}, okCur: "true", curGuard: tTrue, checked: map[string]*ssa.BasicBlock{},
		known: map[string]string{}, defs: map[string]string{}, expanded: map[string]string{}, scratchLocals: map[*ssa.Alloc]Term{}, specVals: map[string]CVal{}, boxDecls: map[string]string{}, clauseSeen: map[string]bool{}, defaultExterns: map[string]bool{}, rangeMaps: map[*ssa.Range]*types.Map{}}
	return e
}

func (e *Enc) emit(format string, args ...interface{}) {
	e.lines = append(e.lines, fmt.Sprintf(format, args...))
}

func (e *Enc) freshName(prefix string) string {
	prefix = sanitize(prefix)
	e.nameCtr[prefix]++
	return fmt.Sprintf("%s~%d", prefix, e.nameCtr[prefix])
}

func sanitize(s string) string {
	var b strings.Builder
	for _, c := range s {
		switch {
		case c >= 'a' && c <= 'z', c >= 'A' && c <= 'Z', c >= '0' && c <= '9', c == '_', c == '.', c == '$', c == '@':
			b.WriteRune(c)
		default:
			b.WriteRune('_')
		}
	}
	return b.String()
}

func isAtomic(s string) bool {
	return !strings.ContainsAny(s, " (")
}

// def names a term (define-fun) so that it is shared, not copied.
func (e *Enc) def(prefix string, t Term) Term {
	if t.Sort == sInt && len(e.known) > 0 && !isNumeral(t.S) {
		if k, ok := e.known[e.expand(t.S)]; ok {
			return Term{k, sInt}
		}
	}
	if e.inQuant > 0 || isAtomic(t.S) || (strings.HasPrefix(t.S, "(- ") && isAtomic(t.S[3:len(t.S)-1])) {
		return t
	}
	n := e.freshName(prefix)
	e.emit("(define-fun %s () %s %s)", n, t.Sort, t.S)
	if len(e.known) > 0 || e.keepDefs {
		e.defs[n] = t.S
	}
	return Term{n, t.Sort}
}

// expand replaces defined names by their definitions (bounded), giving a canonical
// spelling used to recognise the split expressions whose value is fixed in a case.
func (e *Enc) expand(s string) string {
	if len(e.defs) == 0 {
		return s
	}
	var b strings.Builder
	i := 0
	for i < len(s) {
		c := s[i]
		if c == '(' || c == ')' || c == ' ' {
			b.WriteByte(c)
			i++
			continue
		}
		j := i
		for j < len(s) && s[j] != '(' && s[j] != ')' && s[j] != ' ' {
			j++
		}
		tok := s[i:j]
		if ex, ok := e.expanded[tok]; ok {
			b.WriteString(ex)
		} else if d, ok := e.defs[tok]; ok {
			ex := tok
			if len(d) < 400 {
				ex = e.expand(d)
				if len(ex) > 600 {
					ex = tok
				}
			}
			e.expanded[tok] = ex
			b.WriteString(ex)
		} else {
			b.WriteString(tok)
		}
		i = j
		if b.Len() > 4000 {
			return s
		}
	}
	return b.String()
}

func (e *Enc) havoc(prefix, srt string) Term {
	n := e.freshName(prefix)
	e.emit("(declare-const %s %s)", n, srt)
	return Term{n, srt}
}

func (e *Enc) heapInit(name, srt string) Term {
	if t, ok := e.heapInits[name]; ok {
		return t
	}
	n := sanitize(name) + "@0"
	// declared at the top of the script (collected separately)
	t := Term{n, srt}
	e.heapInits[name] = t
	return t
}

// assume adds a fact that holds whenever the current point is reached and all
// earlier obligations held.
func (e *Enc) assumeG(guard Term, fact Term) {
	if fact.S == "true" || e.quiet {
		return
	}
	f := tImp(guard, fact)
	if e.okCur != "true" {
		f = tImp(Term{e.okCur, sBool}, f)
	}
	e.emit("(assert %s)", f.S)
}

func (e *Enc) assume(fact Term) { e.assumeG(e.curGuard, fact) }

func (e *Enc) obligeG(guard Term, kind, label string, tags []string, cond Term, pos token.Pos) {
	if e.quiet {
		return
	}
	key := kind + ":" + label
	e.oblCtr[key]++
	name := fmt.Sprintf("%s/%s[%s]", funcName(e.fn), kind, label)
	if e.oblCtr[key] > 1 {
		name += fmt.Sprintf("#%d", e.oblCtr[key])
	}
	id := len(e.obls) + 1
	ob := &Obl{ID: id, Name: name, Kind: kind, Tags: tags, Func: funcName(e.fn), Text: label, okPre: e.okCur}
	if pos.IsValid() {
		ps := e.p.fset.Position(pos)
		ob.Pos = fmt.Sprintf("%s:%d", ps.Filename, ps.Line)
	}
	ob.obSym = fmt.Sprintf("ob~%d", id)
	e.emit("(define-fun %s () Bool %s) ; %s", ob.obSym, tImp(guard, cond).S, strings.ReplaceAll(name, "\n", " "))
	if e.terminal {
		// nothing follows this point on its path: the obligation is not assumed later
		ob.terminal = true
	} else {
		ok := fmt.Sprintf("ok~%d", id)
		e.emit("(define-fun %s () Bool (and %s %s))", ok, e.okCur, ob.obSym)
		e.okCur = ok
	}
	e.obls = append(e.obls, ob)
}

func (e *Enc) oblige(kind, label string, tags []string, cond Term, pos token.Pos) {
	e.obligeG(e.curGuard, kind, label, tags, cond, pos)
}

func (e *Enc) safety(kind string, cond Term, pos token.Pos) {
	if cond.S == "true" {
		return
	}
	// a check already made on the same term in a dominating block is not repeated
	key := kind + "|" + cond.S
	if b, ok := e.checked[key]; ok && e.curBlock != nil && (b == e.curBlock || b.Dominates(e.curBlock)) {
		return
	}
	if e.curBlock != nil {
		e.checked[key] = e.curBlock
	}
	label := e.p.srcLine(pos)
	if label == "" {
		label = "?"
	}
	e.oblige(kind, label, e.panicTags, cond, pos)
}

// ---------- arithmetic ----------

func (e *Enc) mulTerm(a, b Term) Term {
	if isNumeral(a.S) || isNumeral(b.S) {
		return Term{app("*", a.S, b.S), sInt}
	}
	t := Term{app("mulI", a.S, b.S), sInt}
	if e.inQuant == 0 && !e.mulSeen[t.S] {
		e.mulSeen[t.S] = true
		p32 := p2(32).String()
		p64 := p2(64).String()
		e.emit("(assert (=> (and (<= 0 %s) (<= 0 %s)) (<= 0 %s)))", a.S, b.S, t.S)
		e.emit("(assert (=> (and (<= 0 %s) (< %s %s) (<= 0 %s) (< %s %s)) (< %s %s)))", a.S, a.S, p32, b.S, b.S, p32, t.S, p64)
		e.emit("(assert (= %s %s))", t.S, app("mulI", b.S, a.S))
		e.emit("(assert (=> (= %s 0) (= %s 0)))", a.S, t.S)
		e.emit("(assert (=> (= %s 0) (= %s 0)))", b.S, t.S)
		e.emit("(assert (=> (= %s 1) (= %s %s)))", a.S, t.S, b.S)
		e.emit("(assert (=> (= %s 1) (= %s %s)))", b.S, t.S, a.S)
	}
	return t
}

// modTerm / divTerm: Euclidean mod / div on non-negative operands. In UF arithmetic mode
// (contract clause `arith uf`) a symbolic divisor gives an uninterpreted umod/udiv
// constrained by the triggered axioms of the preamble (each proved against native
// div/mod by the arith-axioms obligations).
func (e *Enc) modTerm(a, b Term) Term {
	if e.ufArith && !isNumeral(b.S) {
		return Term{app("umod", a.S, b.S), sInt}
	}
	return Term{app("mod", a.S, b.S), sInt}
}

func (e *Enc) divTerm(a, b Term) Term {
	if e.ufArith && !isNumeral(b.S) {
		return Term{app("udiv", a.S, b.S), sInt}
	}
	return Term{app("div", a.S, b.S), sInt}
}

// fold replaces a term whose value is fixed by the split case by that numeral.
func (e *Enc) fold(t Term) Term {
	if t.Sort == sInt && len(e.known) > 0 && !isNumeral(t.S) {
		if k, ok := e.known[e.expand(t.S)]; ok {
			return Term{k, sInt}
		}
	}
	return t
}

func isNumeral(s string) bool {
	if s == "" {
		return false
	}
	if strings.HasPrefix(s, "(- ") && strings.HasSuffix(s, ")") {
		s = s[3 : len(s)-1]
	}
	for _, c := range s {
		if c < '0' || c > '9' {
			return false
		}
	}
	return true
}

// wrap reduces a mathematical integer into the range of Go type t.
func (e *Enc) wrap(t types.Type, v Term) Term {
	lo, hi, ok := e.reg.intRange(t)
	if !ok {
		return v
	}
	bits := int(e.reg.sizes.Sizeof(t)) * 8
	m := p2(bits).String()
	v = e.def("w", v)
	if lo.Sign() == 0 {
		return Term{fmt.Sprintf("(ite (> %s %s) (- %s %s) (ite (< %s 0) (+ %s %s) %s))", v.S, hi.String(), v.S, m, v.S, v.S, m, v.S), sInt}
	}
	return Term{fmt.Sprintf("(ite (> %s %s) (- %s %s) (ite (< %s %s) (+ %s %s) %s))", v.S, hi.String(), v.S, m, v.S, tBig(lo).S, v.S, m, v.S), sInt}
}

// wrapMod reduces an arbitrary integer (e.g. a product) into the range of t.
func (e *Enc) wrapMod(t types.Type, v Term) Term {
	lo, _, ok := e.reg.intRange(t)
	if !ok {
		return v
	}
	bits := int(e.reg.sizes.Sizeof(t)) * 8
	m := p2(bits).String()
	if lo.Sign() == 0 {
		return Term{app("mod", v.S, m), sInt}
	}
	h := p2(bits - 1).String()
	return Term{fmt.Sprintf("(- (mod (+ %s %s) %s) %s)", v.S, h, m, h), sInt}
}

func isUnsigned(t types.Type) bool {
	b, ok := t.Underlying().(*types.Basic)
	return ok && b.Info()&types.IsUnsigned != 0
}

func isInteger(t types.Type) bool {
	b, ok := t.Underlying().(*types.Basic)
	return ok && b.Info()&types.IsInteger != 0
}

func isString(t types.Type) bool {
	b, ok := t.Underlying().(*types.Basic)
	return ok && b.Info()&types.IsString != 0
}

// ---------- values ----------

func (e *Enc) constTerm(c *ssa.Const) Term {
	t := c.Type()
	if c.Value == nil {
		// nil / zero value
		switch t.Underlying().(type) {
		case *types.Struct, *types.Array:
			return e.reg.zero(t)
		case *types.Slice:
			return e.reg.zero(t)
		case *types.Basic:
			return e.reg.zero(t)
		}
		return tInt(0)
	}
	switch c.Value.Kind() {
	case constant.Bool:
		if constant.BoolVal(c.Value) {
			return tTrue
		}
		return tFalse
	case constant.String:
		return e.reg.strLit(constant.StringVal(c.Value))
	case constant.Int:
		if isInteger(t) || true {
			bi, ok := new(bigInt).SetString(c.Value.ExactString(), 10)
			if ok {
				return tBig(bi)
			}
		}
	}
	e.warn("unsupported constant %s", c)
	return e.havoc("const", e.reg.sortOf(t))
}

func (e *Enc) warn(format string, args ...interface{}) {
	e.warnings = append(e.warnings, fmt.Sprintf(format, args...))
}

func (e *Enc) val(v ssa.Value) Val {
	switch x := v.(type) {
	case *ssa.Const:
		return Val{T: e.constTerm(x)}
	case *ssa.Function:
		return Val{T: e.funcValue(x)}
	case *ssa.Global:
		return Val{Loc: &Loc{kind: 3, heapName: "Glob." + x.Name(), heapSort: e.reg.sortOf(x.Type().(*types.Pointer).Elem()), typ: x.Type().(*types.Pointer).Elem()}}
	case *ssa.Builtin:
		return Val{T: tInt(0)}
	}
	if r, ok := e.vals[v]; ok {
		return r
	}
	panic(unsupported{fmt.Sprintf("value %s (%T) used before definition", v.Name(), v)})
}

func (e *Enc) term(v ssa.Value) Term {
	r := e.val(v)
	if r.Loc != nil {
		panic(unsupported{fmt.Sprintf("pointer %s used as a first-class value", v.Name())})
	}
	return r.T
}

type unsupported struct{ msg string }

func (e *Enc) funcValue(f *ssa.Function) Term {
	// function values are elements of a finite enumeration
	name := "fn." + sanitize(funcName(f))
	if _, ok := e.heapInits[name]; !ok {
		e.heapInits[name] = Term{name, sInt}
	}
	return Term{name, sInt}
}

// ---------- memory access ----------

func (e *Enc) baseRead(l *Loc, st *State) Term {
	switch l.kind {
	case 0:
		if t, ok := st.locals[l.alloc]; ok {
			return t
		}
		panic(unsupported{"read of local cell before allocation: " + l.alloc.Name()})
	case 1:
		return tSelect(st.heapGet(e, l.heapName, l.heapSort), l.ref)
	case 2:
		return tSelect(tSelect(st.heapGet(e, l.heapName, l.heapSort), l.ref), l.idx)
	case 3:
		return st.heapGet(e, l.heapName, l.heapSort)
	}
	panic("bad loc")
}

func (e *Enc) baseWrite(l *Loc, st *State, v Term) {
	switch l.kind {
	case 0:
		st.locals[l.alloc] = e.def("loc_"+l.alloc.Comment, v)
	case 1:
		h := st.heapGet(e, l.heapName, l.heapSort)
		st.heap[l.heapName] = e.def(l.heapName, tStore(h, l.ref, v))
	case 2:
		h := st.heapGet(e, l.heapName, l.heapSort)
		inner := tStore(tSelect(h, l.ref), l.idx, v)
		st.heap[l.heapName] = e.def(l.heapName, tStore(h, l.ref, inner))
	case 3:
		st.heap[l.heapName] = e.def(l.heapName, v)
	}
}

func (e *Enc) read(l *Loc, st *State) Term {
	v := e.baseRead(l, st)
	for _, s := range l.path {
		if s.field >= 0 {
			v = s.si.get(v, s.field)
		} else {
			v = tSelect(v, s.idx)
		}
	}
	return v
}

func (e *Enc) write(l *Loc, st *State, nv Term) {
	if len(l.path) == 0 {
		e.baseWrite(l, st, nv)
		return
	}
	base := e.def("cell", e.baseRead(l, st))
	e.baseWrite(l, st, e.updPath(base, l.path, nv))
}

func (e *Enc) updPath(v Term, path []pathStep, nv Term) Term {
	if len(path) == 0 {
		return nv
	}
	s := path[0]
	if s.field >= 0 {
		inner := e.updPath(s.si.get(v, s.field), path[1:], nv)
		return s.si.with(v, s.field, inner)
	}
	inner := e.updPath(tSelect(v, s.idx), path[1:], nv)
	return tStore(v, s.idx, inner)
}

func (l *Loc) extend(s pathStep) *Loc {
	n := *l
	n.path = append(append([]pathStep{}, l.path...), s)
	return &n
}

// ---------- CFG analysis ----------

func (e *Enc) analyzeLoops() {
	fn := e.fn
	for _, b := range fn.Blocks {
		for _, s := range b.Succs {
			if s.Dominates(b) {
				e.backEdge[[2]int{b.Index, s.Index}] = true
				li := e.loops[s]
				if li == nil {
					li = &loopInfo{header: s, blocks: map[*ssa.BasicBlock]bool{s: true}}
					e.loops[s] = li
				}
				// natural loop: nodes reaching b without passing through s
				stack := []*ssa.BasicBlock{b}
				for len(stack) > 0 {
					n := stack[len(stack)-1]
					stack = stack[:len(stack)-1]
					if li.blocks[n] {
						continue
					}
					li.blocks[n] = true
					stack = append(stack, n.Preds...)
				}
			}
		}
	}
	var hs []*ssa.BasicBlock
	for h := range e.loops {
		hs = append(hs, h)
	}
	sort.Slice(hs, func(i, j int) bool { return hs[i].Index < hs[j].Index })
	for i, h := range hs {
		e.loops[h].ord = i + 1
		if e.fc != nil {
			e.loops[h].lc = e.fc.Loops[i+1]
		}
	}
}

func (e *Enc) rpo() []*ssa.BasicBlock {
	fn := e.fn
	seen := map[*ssa.BasicBlock]bool{}
	var post []*ssa.BasicBlock
	var dfs func(b *ssa.BasicBlock)
	dfs = func(b *ssa.BasicBlock) {
		seen[b] = true
		for _, s := range b.Succs {
			if e.backEdge[[2]int{b.Index, s.Index}] || seen[s] {
				continue
			}
			dfs(s)
		}
		post = append(post, b)
	}
	dfs(fn.Blocks[0])
	for i, j := 0, len(post)-1; i < j; i, j = i+1, j-1 {
		post[i], post[j] = post[j], post[i]
	}
	return post
}

// boxTerm: the interface value holding v of the type with the given key.
func (e *Enc) boxTerm(key string, v Term) Term {
	name := "box." + sanitize(key)
	e.boxDecls[name] = v.Sort
	return Term{app(name, v.S), sInt}
}

func (e *Enc) noteClause(key string, ok bool) {
	if ok {
		e.clauseSeen[key] = true
	} else if _, seen := e.clauseSeen[key]; !seen {
		e.clauseSeen[key] = false
	}
}

// constArray: the array all of whose elements equal fill. Solvers accept (as const ...) only
// for value terms; elements mentioning uninterpreted constants (strings) get a fresh array
// symbol with a quantified definition.
func (e *Enc) constArray(es string, fill Term) Term {
	if !strings.Contains(fill.S, "str") && !strings.Contains(fill.S, "~") {
		return Term{app("(as const "+arrSort(es)+")", fill.S), arrSort(es)}
	}
	a := e.havoc("constarr", arrSort(es))
	e.emit("(assert (forall ((i! Int)) (! (= (select %s i!) %s) :pattern ((select %s i!)))))", a.S, fill.S, a.S)
	return a
}
