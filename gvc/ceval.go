package main

// Evaluation of contract expressions into SMT terms, in a given program state.

import (
	"fmt"
	"go/constant"
	"go/types"
	"strconv"
	"strings"
)

// CVal is a contract-level value: an SMT term plus (optionally) the Go type that
// tells how fields / elements are reached through the heap.
type CVal struct {
	T  Term
	GT types.Type
}

type Ctx struct {
	e     *Enc
	st    *State
	old   *State
	vars  map[string]CVal
	local func(name string) (CVal, bool)
	depth int
	iter  *Ctx // context of the loop header (start of the current iteration), for iter(e)
	outer *Ctx // context of the enclosing loop's header (start of its current iteration), for outer(e)
}

func (c *Ctx) with(vars map[string]CVal) *Ctx {
	n := *c
	n.vars = map[string]CVal{}
	for k, v := range c.vars {
		n.vars[k] = v
	}
	for k, v := range vars {
		n.vars[k] = v
	}
	return &n
}

func (c *Ctx) inState(st *State) *Ctx {
	n := *c
	n.st = st
	return &n
}

type evalError struct{ msg string }

func (e evalError) Error() string { return e.msg }

func cfail(format string, args ...interface{}) {
	panic(evalError{fmt.Sprintf(format, args...)})
}

func (c *Ctx) evalBool(x Expr) Term {
	v := c.eval(x)
	if v.T.Sort != sBool {
		cfail("boolean expected, got sort %s in %s", v.T.Sort, exprString(x))
	}
	return v.T
}

func (c *Ctx) evalInt(x Expr) Term {
	v := c.eval(x)
	if v.T.Sort != sInt {
		cfail("integer expected, got sort %s in %s", v.T.Sort, exprString(x))
	}
	return v.T
}

func derefType(t types.Type) (types.Type, bool) {
	if p, ok := t.Underlying().(*types.Pointer); ok {
		return p.Elem(), true
	}
	return t, false
}

func (c *Ctx) eval(x Expr) CVal {
	e := c.e
	switch x := x.(type) {
	case *EInt:
		return CVal{T: tBig(x.V)}
	case *EBool:
		if x.V {
			return CVal{T: tTrue}
		}
		return CVal{T: tFalse}
	case *EStr:
		return CVal{T: e.reg.strLit(x.V), GT: types.Typ[types.String]}
	case *EIdent:
		if x.Name == "nil" {
			return CVal{T: tInt(0)}
		}
		if v, ok := c.vars[x.Name]; ok {
			return v
		}
		if c.local != nil {
			if v, ok := c.local(x.Name); ok {
				return v
			}
		}
		if v, ok := e.goConst(x.Name); ok {
			return v
		}
		if x.Name == "$alloc" {
			return CVal{T: c.st.alloc}
		}
		cfail("unknown identifier %q", x.Name)
	case *EUn:
		switch x.Op {
		case "!":
			return CVal{T: tNot(c.evalBool(x.X))}
		case "-":
			return CVal{T: Term{app("-", c.evalInt(x.X).S), sInt}}
		}
	case *EBin:
		switch x.Op {
		case "&&":
			l := c.evalBool(x.L)
			if l.S == "false" {
				return CVal{T: tFalse}
			}
			return CVal{T: tAnd(l, c.evalBool(x.R))}
		case "||":
			l := c.evalBool(x.L)
			if l.S == "true" {
				return CVal{T: tTrue}
			}
			return CVal{T: tOr(l, c.evalBool(x.R))}
		case "==>":
			l := c.evalBool(x.L)
			if l.S == "false" {
				return CVal{T: tTrue}
			}
			return CVal{T: tImp(l, c.evalBool(x.R))}
		case "<==>":
			return CVal{T: tEq(c.evalBool(x.L), c.evalBool(x.R))}
		case "==", "!=":
			l, r := c.eval(x.L), c.eval(x.R)
			if l.T.Sort != r.T.Sort {
				cfail("comparison of different sorts %s and %s in %s", l.T.Sort, r.T.Sort, exprString(x))
			}
			t := tEq(l.T, r.T)
			if x.Op == "!=" {
				t = tNot(t)
			}
			return CVal{T: t}
		case "<", "<=", ">", ">=":
			l, r := c.evalInt(x.L), c.evalInt(x.R)
			return CVal{T: tCmp(x.Op, l, r)}
		case "+", "-":
			if x.Op == "+" {
				if lv := c.eval(x.L); lv.T.Sort == sStr {
					rv := c.eval(x.R)
					if rv.T.Sort != sStr {
						cfail("string + non-string in %s", exprString(x))
					}
					e.usedUF["strcat"] = true
					return CVal{T: Term{app("strcat", lv.T.S, rv.T.S), sStr}, GT: types.Typ[types.String]}
				}
			}
			l, r := c.evalInt(x.L), c.evalInt(x.R)
			return CVal{T: Term{app(x.Op, l.S, r.S), sInt}}
		case "*":
			l, r := c.evalInt(x.L), c.evalInt(x.R)
			return CVal{T: e.mulTerm(l, r)}
		case "/":
			l, r := c.evalInt(x.L), c.evalInt(x.R)
			return CVal{T: e.divTerm(l, r)}
		case "%":
			l, r := c.evalInt(x.L), c.evalInt(x.R)
			return CVal{T: e.modTerm(l, r)}
		}
	case *ELet:
		v := c.eval(x.Val)
		v.T = e.def("let_"+x.Name, v.T)
		return c.with(map[string]CVal{x.Name: v}).eval(x.Body)
	case *EQuant:
		// note: let-definitions inside quantifier bodies would capture bound
		// variables; forbid definitions by switching to inline mode.
		vars := map[string]CVal{}
		var decl []string
		for i, v := range x.Vars {
			name := e.freshName("q_" + v)
			srt := sInt
			var gt types.Type
			if i < len(x.Sorts) && x.Sorts[i] != "" {
				srt = ufSort(x.Sorts[i])
				if srt == sStr {
					gt = types.Typ[types.String]
				}
			}
			vars[v] = CVal{T: Term{name, srt}, GT: gt}
			decl = append(decl, "("+name+" "+srt+")")
		}
		sub := c.with(vars)
		sub.depth = c.depth + 1
		e.inQuant++
		body := sub.evalBool(x.Body)
		e.inQuant--
		q := "exists"
		if x.Forall {
			q = "forall"
		}
		return CVal{T: Term{"(" + q + " (" + strings.Join(decl, " ") + ") " + body.S + ")", sBool}}
	case *ESel:
		if id, ok := x.X.(*EIdent); ok && id.Name == "result" {
			if _, err := strconv.Atoi(x.F); err == nil {
				if v, ok := c.vars["result."+x.F]; ok {
					return v
				}
				cfail("no result component %s", x.F)
			}
		}
		b := c.eval(x.X)
		return c.selField(b, x.F, x)
	case *EIndex:
		b := c.eval(x.X)
		if b.GT != nil {
			if mt, ok := b.GT.Underlying().(*types.Map); ok {
				k := c.eval(x.I)
				return CVal{T: e.mapGet(mt, b.T, k.T, c.st), GT: mt.Elem()}
			}
		}
		i := c.evalInt(x.I)
		if b.GT != nil {
			switch u := b.GT.Underlying().(type) {
			case *types.Slice:
				h := c.st.heapGet(e, elemHeapName(u.Elem()), arrSort(arrSort(e.reg.sortOf(u.Elem()))))
				arr := tSelect(h, Term{app("Slice_arr", b.T.S), sInt})
				idx := sidx(b.T, i)
				return CVal{T: tSelect(arr, idx), GT: u.Elem()}
			case *types.Basic:
				if u.Info()&types.IsString != 0 {
					return CVal{T: Term{app("strat", b.T.S, i.S), sInt}}
				}
			}
		}
		if strings.HasPrefix(b.T.Sort, "(Array Int ") {
			var gt types.Type
			if at, ok := b.GT.(*types.Array); ok {
				gt = at.Elem()
			}
			return CVal{T: tSelect(b.T, i), GT: gt}
		}
		cfail("cannot index %s", exprString(x.X))
	case *EStore:
		b := c.eval(x.X)
		if !strings.HasPrefix(b.T.Sort, "(Array Int ") {
			cfail("array update on non-array %s", exprString(x.X))
		}
		i := c.evalInt(x.I)
		v := c.eval(x.V)
		return CVal{T: tStore(b.T, i, v.T), GT: b.GT}
	case *EUpd:
		b := c.eval(x.X)
		if b.GT == nil {
			cfail("record update on untyped value %s", exprString(x.X))
		}
		si := e.reg.structOf(b.GT)
		k := si.fieldIndex(x.F)
		if k < 0 {
			cfail("no field %s in %s", x.F, si.goName)
		}
		v := c.eval(x.V)
		return CVal{T: si.with(b.T, k, v.T), GT: b.GT}
	case *ECall:
		return c.evalCall(x)
	case *evaluated:
		return x.v
	}
	cfail("unsupported expression %s", exprString(x))
	return CVal{}
}

func (c *Ctx) selField(b CVal, f string, x Expr) CVal {
	e := c.e
	if b.GT == nil {
		cfail("field %s of untyped value in %s", f, exprString(x))
	}
	// ghost fields of interface-typed objects (e.g. the remaining length of a token stream)
	if n, isNamed := b.GT.(*types.Named); isNamed {
		if _, isIface := n.Underlying().(*types.Interface); isIface {
			if srt, ok := e.p.cs.Ghosts[n.Obj().Name()+"."+f]; ok {
				h := c.st.heapGet(e, "G."+n.Obj().Name()+"."+f, arrSort(srt))
				return CVal{T: tSelect(h, b.T)}
			}
			cfail("no ghost field %s on interface %s", f, n.Obj().Name())
		}
	}
	bt, isPtr := derefType(b.GT)
	st, ok := bt.Underlying().(*types.Struct)
	if !ok {
		cfail("field %s of non-struct type %s", f, b.GT)
	}
	si := e.reg.structOf(bt)
	k := si.fieldIndex(f)
	if k < 0 {
		// ghost field?
		if isPtr {
			if srt, ok := e.p.cs.Ghosts[si.goName+"."+f]; ok {
				h := c.st.heapGet(e, "G."+si.goName+"."+f, arrSort(srt))
				return CVal{T: tSelect(h, b.T)}
			}
		}
		cfail("no field %s in %s", f, si.goName)
	}
	_ = st
	ft := si.fields[k].typ
	if isPtr {
		h := c.st.heapGet(e, fieldHeapName(si, k), arrSort(si.fields[k].sort))
		return CVal{T: e.fold(tSelect(h, b.T)), GT: ft}
	}
	return CVal{T: e.fold(si.get(b.T, k)), GT: ft}
}

func (c *Ctx) evalCall(x *ECall) CVal {
	e := c.e
	switch x.Fn {
	case "outer":
		if len(x.Args) != 1 {
			cfail("outer takes one argument")
		}
		if c.outer == nil {
			cfail("outer() used outside a nested loop")
		}
		sub := *c.outer
		sub.vars = map[string]CVal{}
		for k, v := range c.outer.vars {
			sub.vars[k] = v
		}
		for k, v := range c.vars {
			sub.vars[k] = v
		}
		sub.depth = c.depth + 1
		return sub.eval(x.Args[0])
	case "iter":
		if len(x.Args) != 1 {
			cfail("iter takes one argument")
		}
		if c.iter == nil {
			cfail("iter() used outside a backedge / iteration / exit clause")
		}
		sub := *c.iter
		sub.vars = map[string]CVal{}
		for k, v := range c.iter.vars {
			sub.vars[k] = v
		}
		for k, v := range c.vars { // bound variables of enclosing quantifiers
			sub.vars[k] = v
		}
		sub.depth = c.depth + 1
		return sub.eval(x.Args[0])
	case "local": // local(name): the function's local variable of that name (not a result alias such as err)
		id, ok := x.Args[0].(*EIdent)
		if !ok || len(x.Args) != 1 {
			cfail("local(name): identifier expected")
		}
		if c.local != nil {
			if v, ok := c.local(id.Name); ok {
				return v
			}
		}
		cfail("unknown identifier %s", id.Name)
	case "old":
		if len(x.Args) != 1 {
			cfail("old takes one argument")
		}
		if c.old == nil {
			cfail("old() used where no old state exists")
		}
		return c.inState(c.old).eval(x.Args[0])
	case "len", "cap":
		v := c.eval(x.Args[0])
		switch v.T.Sort {
		case sSlice:
			return CVal{T: Term{app("Slice_"+x.Fn, v.T.S), sInt}}
		case sStr:
			return CVal{T: Term{app("strlen", v.T.S), sInt}}
		}
		cfail("len of %s", v.T.Sort)
	case "ite":
		if len(x.Args) != 3 {
			cfail("ite takes three arguments")
		}
		cnd := c.evalBool(x.Args[0])
		if cnd.S == "true" {
			return c.eval(x.Args[1])
		}
		if cnd.S == "false" {
			return c.eval(x.Args[2])
		}
		a, b := c.eval(x.Args[1]), c.eval(x.Args[2])
		if a.T.Sort != b.T.Sort {
			cfail("ite branches of different sorts in %s", exprString(x))
		}
		return CVal{T: tIte(cnd, a.T, b.T), GT: a.GT}
	case "fresh":
		v := c.evalInt(x.Args[0])
		if c.old == nil {
			cfail("fresh() needs an old state")
		}
		return CVal{T: tAnd(Term{app(">=", v.S, c.old.alloc.S), sBool}, Term{app("<", v.S, c.st.alloc.S), sBool})}
	case "allocated":
		v := c.evalInt(x.Args[0])
		return CVal{T: tAnd(Term{app("<=", "0", v.S), sBool}, Term{app("<", v.S, c.st.alloc.S), sBool})}
	case "sent", "lastSent", "sentAt": // ghost log of a channel: number of values sent / the last value sent / the k-th value sent
		cv := c.eval(x.Args[0])
		ct, ok := cv.GT.Underlying().(*types.Chan)
		if !ok {
			cfail("%s: not a channel", x.Fn)
		}
		nName, lName, lSort := chanGhost(e, ct.Elem())
		n := tSelect(c.st.heapGet(e, nName, arrSort(sInt)), cv.T)
		if x.Fn == "sent" {
			return CVal{T: n}
		}
		log := tSelect(c.st.heapGet(e, lName, arrSort(lSort)), cv.T)
		if x.Fn == "sentAt" {
			if len(x.Args) != 2 {
				cfail("sentAt(ch, k)")
			}
			return CVal{T: tSelect(log, c.evalInt(x.Args[1])), GT: ct.Elem()}
		}
		return CVal{T: tSelect(log, Term{app("-", n.S, "1"), sInt}), GT: ct.Elem()}
	case "has": // has(m, k): key k is present in map m
		mv := c.eval(x.Args[0])
		mt, ok := mv.GT.Underlying().(*types.Map)
		if !ok {
			cfail("has: not a map")
		}
		k := c.eval(x.Args[1])
		return CVal{T: e.mapHas(mt, mv.T, k.T, c.st)}
	case "zeros": // the all-zero array of integers
		return CVal{T: Term{"((as const (Array Int Int)) 0)", arrSort(sInt)}}
	case "as": // as(x, T): view an interface / pointer value as *T
		v := c.eval(x.Args[0])
		id, ok := x.Args[1].(*EIdent)
		if !ok {
			cfail("as(x, T): type name expected")
		}
		if it := e.p.typeByText(id.Name); it != nil {
			if _, isIface := it.Underlying().(*types.Interface); isIface {
				// view a pointer as the interface value holding it (to reach the interface's ghost fields)
				return CVal{T: v.T, GT: it}
			}
		}
		t := e.p.typeByText("*" + id.Name)
		if t == nil {
			cfail("as: unknown type %s", id.Name)
		}
		if _, isIface := v.GT.Underlying().(*types.Interface); v.GT != nil && isIface {
			// the pointer held by an interface value (a typed nil, -1, holds the nil pointer)
			return CVal{T: tIte(Term{app("<", v.T.S, "0"), sBool}, tInt(0), v.T), GT: t}
		}
		return CVal{T: v.T, GT: t}
	case "elems": // contents of a slice as a mathematical array (offset must be 0)
		v := c.eval(x.Args[0])
		sl, ok := v.GT.Underlying().(*types.Slice)
		if !ok {
			cfail("elems of non-slice")
		}
		h := c.st.heapGet(e, elemHeapName(sl.Elem()), arrSort(arrSort(e.reg.sortOf(sl.Elem()))))
		return CVal{T: tSelect(h, Term{app("Slice_arr", v.T.S), sInt}), GT: types.NewArray(sl.Elem(), 0)}
	case "arr": // backing array identity of a slice
		v := c.eval(x.Args[0])
		return CVal{T: Term{app("Slice_arr", v.T.S), sInt}}
	case "off":
		v := c.eval(x.Args[0])
		return CVal{T: Term{app("Slice_off", v.T.S), sInt}}
	case "mulI":
		a, b := c.evalInt(x.Args[0]), c.evalInt(x.Args[1])
		return CVal{T: e.mulTerm(a, b)}
	}
	if strings.HasPrefix(x.Fn, "box_") && len(x.Args) == 1 {
		v := c.eval(x.Args[0])
		return CVal{T: e.boxTerm(x.Fn[4:], v.T)}
	}
	if uf, ok := e.p.cs.UFs[x.Fn]; ok {
		if len(x.Args) != len(uf.Params) {
			cfail("%s: wrong number of arguments", x.Fn)
		}
		var as []string
		for i, a := range x.Args {
			v := c.eval(a)
			if want := ufSort(uf.Params[i].Type); v.T.Sort != want {
				cfail("%s: argument %d has sort %s, want %s", x.Fn, i+1, v.T.Sort, want)
			}
			as = append(as, v.T.S)
		}
		e.usedUF[x.Fn] = true
		if len(as) == 0 {
			return CVal{T: Term{"uf_" + x.Fn, ufSort(uf.Result)}}
		}
		return CVal{T: Term{app("uf_"+x.Fn, as...), ufSort(uf.Result)}}
	}
	if uf, ok := e.p.ufs[x.Fn]; ok {
		if len(x.Args) != len(uf.args) {
			cfail("%s: wrong number of arguments", x.Fn)
		}
		var as []string
		for _, a := range x.Args {
			as = append(as, c.eval(a).T.S)
		}
		e.usedUF[x.Fn] = true
		return CVal{T: Term{app(x.Fn, as...), uf.res}}
	}
	pf, ok := e.p.cs.Pures[x.Fn]
	if !ok {
		cfail("unknown function %s", x.Fn)
	}
	if len(x.Args) != len(pf.Params) {
		cfail("%s: expected %d arguments", x.Fn, len(pf.Params))
	}
	if c.depth > 40 {
		cfail("pure function expansion too deep (recursion?) at %s", x.Fn)
	}
	vars := map[string]CVal{}
	for i, p := range pf.Params {
		v := c.eval(x.Args[i])
		if v.GT == nil {
			v.GT = e.p.typeByText(p.Type)
		}
		v.T = e.def("a_"+p.Name, v.T) // call by value: the argument term is shared, not copied
		vars[p.Name] = v
	}
	// pure functions see only their parameters (and the heap)
	sub := &Ctx{e: e, st: c.st, old: c.old, vars: vars, depth: c.depth + 1, iter: c.iter, outer: c.outer}
	r := sub.eval(pf.Body)
	r.T = e.def("r_"+x.Fn, r.T)
	return r
}

func (e *Enc) goConst(name string) (CVal, bool) {
	for _, pkg := range e.p.typePkgs {
		obj := pkg.Scope().Lookup(name)
		if fo, ok := obj.(*types.Func); ok {
			// a package function used as a value
			if fn := e.p.prog.FuncValue(fo); fn != nil {
				return CVal{T: e.funcValue(fn), GT: fo.Type()}, true
			}
		}
		if cn, ok := obj.(*types.Const); ok {
			switch cn.Val().Kind() {
			case constant.Int:
				if v, ok := constant.Int64Val(cn.Val()); ok {
					return CVal{T: tInt(v), GT: cn.Type()}, true
				}
			case constant.Bool:
				if constant.BoolVal(cn.Val()) {
					return CVal{T: tTrue}, true
				}
				return CVal{T: tFalse}, true
			case constant.String:
				return CVal{T: e.reg.strLit(constant.StringVal(cn.Val())), GT: cn.Type()}, true
			}
		}
	}
	return CVal{}, false
}

func exprString(x Expr) string {
	switch x := x.(type) {
	case *EInt:
		return x.V.String()
	case *EBool:
		return fmt.Sprint(x.V)
	case *EStr:
		return strconv.Quote(x.V)
	case *EIdent:
		return x.Name
	case *EUn:
		return x.Op + exprString(x.X)
	case *EBin:
		return "(" + exprString(x.L) + " " + x.Op + " " + exprString(x.R) + ")"
	case *ESel:
		return exprString(x.X) + "." + x.F
	case *EIndex:
		return exprString(x.X) + "[" + exprString(x.I) + "]"
	case *ECall:
		var as []string
		for _, a := range x.Args {
			as = append(as, exprString(a))
		}
		return x.Fn + "(" + strings.Join(as, ", ") + ")"
	case *EQuant:
		q := "exists"
		if x.Forall {
			q = "forall"
		}
		var vs []string
		for i, v := range x.Vars {
			if i < len(x.Sorts) && x.Sorts[i] != "" {
				v += ": " + x.Sorts[i]
			}
			vs = append(vs, v)
		}
		return q + " " + strings.Join(vs, ", ") + " :: " + exprString(x.Body)
	case *ELet:
		return "let " + x.Name + " = " + exprString(x.Val) + " in " + exprString(x.Body)
	case *EUpd:
		return exprString(x.X) + "{" + x.F + ": " + exprString(x.V) + "}"
	case *EStore:
		return exprString(x.X) + "[" + exprString(x.I) + " := " + exprString(x.V) + "]"
	case *evaluated:
		return "<" + x.v.T.S + ">"
	}
	return "?"
}

func ufSort(t string) string {
	if strings.HasPrefix(t, "(") {
		return t
	}
	switch t {
	case "Str", "string":
		return sStr
	case "bool", "Bool":
		return sBool
	case "Slice":
		return sSlice
	}
	return sInt
}
