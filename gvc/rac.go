package main

// Replay of failed obligations against the real code (DESIGN 2.13).
//
// A failed obligation names a function and a contract clause. The replay builder runs the *real*
// function (go test -overlay, nothing written to the repository) on generated inputs, dumps the object
// graph before and after each call, and turns each dump into ground SMT facts over the same heap
// encoding the verifier uses. A contract clause is then decided on those facts by the same contract
// evaluator (ceval) the verification conditions come from:
//
//   requires:  facts /\ not(requires)           unsat  => the input is a legal one
//   ensures:   facts /\ ghost-requires /\ clause unsat  => the clause is false on this real execution
//
// Only `unsat` answers are used, so an incomplete dump or an undecided quantifier can only lose a
// replay (the VIOLATION then stays `no-failing-input-found`), never invent one.

import (
	"bufio"
	"encoding/json"
	"fmt"
	"go/types"
	"math/big"
	"os"
	"os/exec"
	"path/filepath"
	"sort"
	"strconv"
	"strings"
	"sync"
	"time"
	"unicode"

	"golang.org/x/tools/go/ssa"
)

type racDump struct {
	Roots map[string]interface{}            `json:"roots"`
	Objs  map[string]map[string]interface{} `json:"objs"`
	Next  int                               `json:"next"`
}

type racTry struct {
	Try    int      `json:"try"`
	Seed   int64    `json:"seed"`
	Pre    *racDump `json:"pre"`
	Post   *racDump `json:"post"`
	Panic  string   `json:"panic"`
	Hung   bool     `json:"hung"`
	GenErr string   `json:"generr"`
}

type racConv struct {
	e    *Enc
	st   *State
	d    *racDump
	seen map[string]bool
	bad  string
}

func (c *racConv) fail(format string, args ...interface{}) {
	if c.bad == "" {
		c.bad = fmt.Sprintf(format, args...)
	}
}

func asMap(v interface{}) map[string]interface{} {
	m, _ := v.(map[string]interface{})
	return m
}

func asInt(v interface{}) int {
	f, _ := v.(float64)
	return int(f)
}

func (c *racConv) fact(format string, args ...interface{}) {
	c.e.emit("(assert "+format+")", args...)
}

// val converts a dumped value of static type t into a term, emitting heap facts for what it reaches.
func (c *racConv) val(t types.Type, v interface{}) Term {
	e := c.e
	switch u := t.Underlying().(type) {
	case *types.Basic:
		switch {
		case u.Info()&types.IsBoolean != 0:
			b, ok := v.(bool)
			if !ok {
				c.fail("bool expected")
			}
			if b {
				return tTrue
			}
			return tFalse
		case u.Info()&types.IsString != 0:
			m := asMap(v)
			s, ok := m["s"].(string)
			if !ok {
				c.fail("string expected")
			}
			return e.reg.strLit(s)
		case u.Info()&types.IsInteger != 0:
			s, ok := v.(string)
			n, ok2 := new(big.Int).SetString(s, 10)
			if !ok || !ok2 {
				c.fail("integer expected")
				return tInt(0)
			}
			if u.Kind() == types.Int32 && n.IsInt64() {
				c.e.racRunes = append(c.e.racRunes, n.Int64()) // rune values: the character-class functions are evaluated on them
			}
			return tBig(n)
		}
		if m := asMap(v); m != nil {
			return tInt(int64(asInt(m["opq"])))
		}
		c.fail("unsupported basic type %s", t)
		return tInt(0)
	case *types.Pointer:
		id := asInt(asMap(v)["ref"])
		if id != 0 {
			c.obj(id, u.Elem())
		}
		return tInt(int64(id))
	case *types.Struct:
		si := e.reg.structOf(t)
		fm := asMap(asMap(v)["f"])
		if fm == nil {
			c.fail("struct expected for %s", t)
			return e.reg.zero(t)
		}
		args := make([]string, len(si.fields))
		for i, f := range si.fields {
			args[i] = c.val(f.typ, fm[f.name]).S
		}
		if len(args) == 0 {
			return Term{si.ctor(), si.name}
		}
		return Term{app(si.ctor(), args...), si.name}
	case *types.Slice:
		sl, _ := asMap(v)["sl"].([]interface{})
		if len(sl) != 4 {
			c.fail("slice expected for %s", t)
			return e.reg.zero(t)
		}
		id := asInt(sl[0])
		if id != 0 && asInt(sl[3]) == 0 {
			// a non-nil slice of capacity 0: Go points all of them at one shared address, the verifier's model
			// gives every make() its own array. The identity is left open (some positive reference), so no
			// clause can be refuted through it.
			z := e.havoc("zerocap", sInt)
			e.emit("(assert (> %s 0))", z.S)
			return Term{fmt.Sprintf("(mk_Slice %s 0 0 0)", z.S), sSlice}
		}
		if id != 0 {
			c.arr(id, u.Elem())
		}
		return Term{fmt.Sprintf("(mk_Slice %d %d %d %d)", id, asInt(sl[1]), asInt(sl[2]), asInt(sl[3])), sSlice}
	case *types.Array:
		el, _ := asMap(v)["a"].([]interface{})
		a := e.reg.zero(t)
		for i, x := range el {
			a = tStore(a, tInt(int64(i)), c.val(u.Elem(), x))
		}
		return a
	case *types.Map:
		id := asInt(asMap(v)["map"])
		if id != 0 {
			c.mapObj(id, u)
		}
		return tInt(int64(id))
	case *types.Interface:
		m := asMap(v)
		inner := asMap(m["if"])
		if inner == nil {
			return tInt(0)
		}
		dt, _ := inner["dt"].(string)
		if gt := c.e.p.resolveTypeString(dt); gt != nil {
			if _, isPtr := gt.Underlying().(*types.Pointer); isPtr {
				p := c.val(gt, inner["v"])
				if p.S == "0" {
					return tInt(-1) // typed nil
				}
				return p
			}
			if _, isBasic := gt.Underlying().(*types.Basic); isBasic {
				return e.boxTerm(typeKey(gt), c.val(gt, inner["v"]))
			}
		}
		// a dynamic value the encoding has no name for: some non-nil reference
		return e.havocRef()
	default:
		if m := asMap(v); m != nil {
			if id, ok := m["opq"]; ok {
				return tInt(int64(asInt(id)))
			}
		}
		c.fail("unsupported type %s", t)
		return tInt(0)
	}
}

func (e *Enc) havocRef() Term {
	t := e.havoc("dyn", sInt)
	e.emit("(assert (> %s 0))", t.S)
	return t
}

func (c *racConv) obj(id int, t types.Type) {
	key := fmt.Sprintf("o%d:%s", id, typeKey(t))
	if c.seen[key] {
		return
	}
	c.seen[key] = true
	node := c.d.Objs[strconv.Itoa(id)]
	if node == nil {
		return
	}
	if _, ok := t.Underlying().(*types.Struct); !ok {
		return
	}
	si := c.e.reg.structOf(t)
	fm := asMap(asMap(node["v"])["f"])
	if fm == nil {
		return
	}
	for k, f := range si.fields {
		v := c.val(f.typ, fm[f.name])
		h := c.st.heapGet(c.e, fieldHeapName(si, k), arrSort(f.sort))
		c.fact("(= (select %s %d) %s)", h.S, id, v.S)
	}
}

func (c *racConv) arr(id int, el types.Type) {
	key := fmt.Sprintf("a%d:%s", id, typeKey(el))
	if c.seen[key] {
		return
	}
	c.seen[key] = true
	node := c.d.Objs[strconv.Itoa(id)]
	if node == nil {
		return
	}
	els, _ := node["arr"].([]interface{})
	es := c.e.reg.sortOf(el)
	h := c.st.heapGet(c.e, elemHeapName(el), arrSort(arrSort(es)))
	for i, x := range els {
		v := c.val(el, x)
		c.fact("(= (select (select %s %d) %d) %s)", h.S, id, i, v.S)
		c.fact("(= (sidx 0 %d) %d)", i, i)
	}
}

func (c *racConv) mapObj(id int, mt *types.Map) {
	key := fmt.Sprintf("m%d:%s", id, typeKey(mt))
	if c.seen[key] {
		return
	}
	c.seen[key] = true
	node := c.d.Objs[strconv.Itoa(id)]
	if node == nil {
		return
	}
	kv, _ := node["m"].([]interface{})
	dName, vName, kSort, _, dSort, vArrSort := c.e.mapSorts(mt)
	hd := c.st.heapGet(c.e, dName, dSort)
	hv := c.st.heapGet(c.e, vName, vArrSort)
	dom := app("(as const "+arrSort2(kSort, sBool)+")", "false")
	for _, p := range kv {
		pair, _ := p.([]interface{})
		if len(pair) != 2 {
			continue
		}
		k := c.val(mt.Key(), pair[0])
		v := c.val(mt.Elem(), pair[1])
		dom = app("store", dom, k.S, "true")
		c.fact("(= (select (select %s %d) %s) %s)", hv.S, id, k.S, v.S)
	}
	c.fact("(= (select %s %d) %s)", hd.S, id, dom)
}

// resolveTypeString maps reflect's spelling of a type ("*gmars.warrior", "[]gmars.Address", "int")
// to the go/types type of the loaded package.
func (p *Program) resolveTypeString(s string) types.Type {
	switch {
	case strings.HasPrefix(s, "*"):
		if t := p.resolveTypeString(s[1:]); t != nil {
			return types.NewPointer(t)
		}
		return nil
	case strings.HasPrefix(s, "[]"):
		if t := p.resolveTypeString(s[2:]); t != nil {
			return types.NewSlice(t)
		}
		return nil
	}
	if i := strings.LastIndex(s, "."); i >= 0 {
		pkg, name := s[:i], s[i+1:]
		if pkg != "gmars" {
			return nil
		}
		return p.lookupType(name)
	}
	if o := types.Universe.Lookup(s); o != nil {
		if tn, ok := o.(*types.TypeName); ok {
			return tn.Type()
		}
	}
	return nil
}

// racResult: what the replay of one function established.
type racRefuted struct {
	Clause string   `json:"clause"`
	Tags   []string `json:"tags"`
	Try    int      `json:"try"`
	Seed   int64    `json:"seed"`
	Kind   string   `json:"kind"` // ensures | panic
	Panic  string   `json:"panic,omitempty"`
	Pre    *racDump `json:"input"`
}

type racResult struct {
	Func     string
	Tries    int
	Legal    int // tries whose requires were proved on the dump
	Note     string
	Refuted  []racRefuted
	Overlay  string
	TestFile string
}

var racCache = map[string]*racResult{}
var racMu sync.Mutex

func racEnabled() bool { return os.Getenv("GVC_NOREPLAY") == "" }

// goExprOf: the Go expression naming an ssa function of the package (method expression for methods).
func goExprOf(fn *ssa.Function) string {
	if recv := fn.Signature.Recv(); recv != nil {
		rt := recv.Type()
		if pt, ok := rt.(*types.Pointer); ok {
			if n, ok := pt.Elem().(*types.Named); ok {
				return "(*" + n.Obj().Name() + ")." + fn.Name()
			}
		}
		if n, ok := rt.(*types.Named); ok {
			return n.Obj().Name() + "." + fn.Name()
		}
		return ""
	}
	if fn.Parent() != nil || strings.Contains(fn.Name(), "$") {
		return ""
	}
	return fn.Name()
}

func racHarnessFiles(fn *ssa.Function, dir string) (overlay string, err error) {
	expr := goExprOf(fn)
	if expr == "" {
		return "", fmt.Errorf("no Go expression names %s", fn.Name())
	}
	var params, results []string
	for _, p := range fn.Params {
		params = append(params, strconv.Quote(p.Name()))
	}
	res := fn.Signature.Results()
	for i := 0; i < res.Len(); i++ {
		results = append(results, strconv.Quote(fmt.Sprintf("result.%d", i)))
	}
	target := fmt.Sprintf("package gmars\n\nimport \"testing\"\n\nfunc TestGvcReplay(t *testing.T) {\n\tzzRun(t, %q, %s, []string{%s}, []string{%s})\n}\n",
		funcName(fn), expr, strings.Join(params, ", "), strings.Join(results, ", "))
	tf := filepath.Join(dir, "zz_gvc_target_test.go")
	if err := os.WriteFile(tf, []byte(target), 0o644); err != nil {
		return "", err
	}
	repl := map[string]string{}
	for _, n := range []string{"zz_gvc_harness_test.go", "zz_gvc_gen_test.go"} {
		src := filepath.Join(verifDir, "replaygen", n+".src")
		if _, err := os.Stat(src); err != nil {
			return "", err
		}
		repl[filepath.Join(repoDir, n)] = src
	}
	repl[filepath.Join(repoDir, "zz_gvc_target_test.go")] = tf
	data, _ := json.Marshal(map[string]interface{}{"Replace": repl})
	overlay = filepath.Join(dir, "overlay.json")
	return overlay, os.WriteFile(overlay, data, 0o644)
}

func racRunHarness(overlay, out string, tries int, seed int64, only int) (string, error) {
	cmd := exec.Command("go", "test", "-overlay", overlay, "-vet=off", "-count=1", "-timeout", "120s", "-run", "^TestGvcReplay$", ".")
	cmd.Dir = repoDir
	cmd.Env = append(os.Environ(), "GOFLAGS=-mod=mod", "GOPROXY=off", "GOSUMDB=off", "GOTOOLCHAIN=local",
		"GVC_OUT="+out, fmt.Sprintf("GVC_TRIES=%d", tries), fmt.Sprintf("GVC_SEED=%d", seed))
	if only >= 0 {
		cmd.Env = append(cmd.Env, fmt.Sprintf("GVC_ONLY=%d", only))
	}
	b, err := cmd.CombinedOutput()
	return string(b), err
}

func racReadTries(path string) []*racTry {
	f, err := os.Open(path)
	if err != nil {
		return nil
	}
	defer f.Close()
	var out []*racTry
	sc := bufio.NewScanner(f)
	sc.Buffer(make([]byte, 1<<20), 1<<28)
	for sc.Scan() {
		var t racTry
		if json.Unmarshal(sc.Bytes(), &t) == nil {
			out = append(out, &t)
		}
	}
	return out
}

type racClause struct {
	text  string
	tags  []string
	term  Term
	ghost bool
}

// racEval decides the contract of fn on one dumped execution.
// legal: the requires clauses were proved on the dump. refuted: ensures clauses proved false.
func racEval(p *Program, fn *ssa.Function, fc *FuncC, t *racTry) (legal bool, refuted []racClause, note string) {
	defer func() {
		if r := recover(); r != nil {
			switch x := r.(type) {
			case unsupported:
				note = "outside-subset: " + x.msg
			case evalError:
				note = "contract evaluation: " + x.msg
			default:
				note = fmt.Sprint("internal: ", r)
			}
			legal, refuted = false, nil
		}
	}()
	if t.Pre == nil {
		return false, nil, "no dump"
	}
	e := newEnc(p, fn, fc)
	e.ufArith = false
	e.keepDefs = true
	pre := &State{heap: map[string]Term{}, locals: map[*ssa.Alloc]Term{}}
	pre.alloc = Term{"alloc@0", sInt}
	e.heapInits["$alloc"] = pre.alloc
	e.emit("(assert (= alloc@0 %d))", t.Pre.Next)
	e.init = pre
	cp := &racConv{e: e, st: pre, d: t.Pre, seen: map[string]bool{}}
	for _, pa := range fn.Params {
		v, ok := t.Pre.Roots[pa.Name()]
		if !ok {
			return false, nil, "parameter " + pa.Name() + " missing in dump"
		}
		e.params[pa.Name()] = CVal{T: cp.val(pa.Type(), v), GT: pa.Type()}
	}
	if cp.bad != "" {
		return false, nil, "dump not representable: " + cp.bad
	}
	ctx0 := e.ctx(pre, pre, nil)
	var reqPlain, reqGhost []Term
	for _, c := range fc.Req {
		for _, cx := range p.conjuncts(c.E, true) {
			tm := ctx0.evalBool(cx)
			if e.mentionsGhost(tm.S, map[string]bool{}) {
				reqGhost = append(reqGhost, tm)
			} else {
				reqPlain = append(reqPlain, tm)
			}
		}
	}
	for _, sp := range fc.Specs {
		v := e.ctx(pre, pre, nil).eval(sp.E)
		v.T = e.def("spec_"+sp.Name, v.T)
		e.specVals[sp.Name] = v
	}
	var ens []racClause
	if t.Post != nil {
		post := &State{heap: map[string]Term{}, locals: map[*ssa.Alloc]Term{}, sfx: "@post"}
		post.alloc = tInt(int64(t.Post.Next) + 4096) // slack: zero-capacity makes leave no trace in the dump but are allocations in the model
		cq := &racConv{e: e, st: post, d: t.Post, seen: map[string]bool{}}
		// the parameters' objects in the post-state (parameter values themselves do not change)
		for _, pa := range fn.Params {
			if v, ok := t.Post.Roots[pa.Name()]; ok {
				cq.val(pa.Type(), v)
			}
		}
		extra := map[string]CVal{}
		res := fn.Signature.Results()
		for i := 0; i < res.Len(); i++ {
			v, ok := t.Post.Roots[fmt.Sprintf("result.%d", i)]
			if !ok {
				return false, nil, "result missing in dump"
			}
			cv := CVal{T: cq.val(res.At(i).Type(), v), GT: res.At(i).Type()}
			extra[fmt.Sprintf("result.%d", i)] = cv
			if i == 0 {
				extra["result"] = cv
			}
			if n := res.At(i).Name(); n != "" && n != "_" {
				extra[n] = cv
			}
			if i == res.Len()-1 && types.Identical(res.At(i).Type(), types.Universe.Lookup("error").Type()) {
				extra["err"] = cv
			}
		}
		if cq.bad != "" {
			return false, nil, "post dump not representable: " + cq.bad
		}
		c1 := e.ctx(post, pre, extra)
		for k, en := range fc.Ens {
			for j, cx := range p.conjuncts(en.E, true) {
				tm, ok := func() (tm Term, ok bool) {
					defer func() {
						if r := recover(); r != nil {
							ok = false
						}
					}()
					return c1.evalBool(cx), true
				}()
				if !ok {
					continue
				}
				ens = append(ens, racClause{text: fmt.Sprintf("#%d.%d %s", k+1, j+1, exprString(cx)), tags: en.Tags, term: tm, ghost: e.mentionsGhost(tm.S, map[string]bool{})})
			}
		}
	}
	// the character classes of package unicode, evaluated on the runes of the dump
	seenRune := map[int64]bool{}
	for _, r := range e.racRunes {
		if seenRune[r] {
			continue
		}
		seenRune[r] = true
		for name, f := range map[string]func(rune) bool{"isSpaceR": unicode.IsSpace, "isLetterR": unicode.IsLetter, "isDigitR": unicode.IsDigit} {
			if e.usedUF[name] {
				e.emit("(assert (= (uf_%s %s) %v))", name, tInt(r).S, f(rune(r)))
			}
		}
	}
	script := e.script()
	if d := os.Getenv("GVC_RAC_KEEP"); d != "" {
		os.WriteFile(filepath.Join(d, fmt.Sprintf("rac-%s-%d.smt2", sanitize(fn.Name()), t.Try)), []byte(script), 0o644)
	}
	// 1. the input is legal
	if len(reqPlain) > 0 {
		r := solve(script+fmt.Sprintf("(assert (not %s))\n(check-sat)\n", tAnd(reqPlain...).S), 5, "z3-5.1.0")
		if r.Result != "unsat" {
			return false, nil, "requires not established on this input (" + r.Result + ")"
		}
	}
	// requires conjuncts over ghost state constrain only what the prover chooses; they are not part of
	// the input and are neither checked nor assumed here (only ghost-free ensures clauses are decided)
	gh := ""
	_ = reqGhost
	legal = true
	// 2. which ensures clauses are false on this execution
	var plain []racClause
	for _, c := range ens {
		if !c.ghost {
			plain = append(plain, c)
		}
	}
	if len(plain) == 0 {
		return legal, nil, ""
	}
	var all []Term
	for _, c := range plain {
		all = append(all, c.term)
	}
	if d := os.Getenv("GVC_RAC_KEEP"); d != "" {
		os.WriteFile(filepath.Join(d, fmt.Sprintf("rac-%s-%d-all.smt2", sanitize(fn.Name()), t.Try)), []byte(script+gh+fmt.Sprintf("(assert (not %s))\n(check-sat)\n", tAnd(all...).S)), 0o644)
		os.WriteFile(filepath.Join(d, fmt.Sprintf("rac-%s-%d-req.smt2", sanitize(fn.Name()), t.Try)), []byte(script+fmt.Sprintf("(assert (not %s))\n(check-sat)\n", tAnd(reqPlain...).S)), 0o644)
	}
	// cheap direction first: all clauses hold on this execution
	r := solve(script+gh+fmt.Sprintf("(assert (not %s))\n(check-sat)\n", tAnd(all...).S), 3, "z3-5.1.0")
	if r.Result == "unsat" {
		return legal, nil, "all-hold"
	}
	for _, c := range plain {
		r := solve(script+gh+fmt.Sprintf("(assert %s)\n(check-sat)\n", c.term.S), 2, "z3-5.1.0")
		if r.Result == "unsat" {
			refuted = append(refuted, c)
		}
	}
	return legal, refuted, ""
}

// racFunction runs the replay machinery for one function (cached per process).
func racFunction(p *Program, name string) *racResult {
	racMu.Lock()
	if r, ok := racCache[name]; ok {
		racMu.Unlock()
		return r
	}
	racMu.Unlock()
	res := &racResult{Func: name}
	defer func() {
		racMu.Lock()
		racCache[name] = res
		racMu.Unlock()
	}()
	fn := p.funcs[name]
	fc := p.cs.Funcs[name]
	if fn == nil || fc == nil {
		res.Note = "no such function under contract"
		return res
	}
	if fc.Kind != "func" {
		res.Note = "assumed (" + fc.Kind + ") contract: not run against the code"
		return res
	}
	dir, err := os.MkdirTemp(workDir, "replay")
	if err != nil {
		res.Note = err.Error()
		return res
	}
	defer os.RemoveAll(dir)
	overlay, err := racHarnessFiles(fn, dir)
	if err != nil {
		res.Note = "no harness: " + err.Error()
		return res
	}
	batch := 200
	if s := os.Getenv("GVC_REPLAY_TRIES"); s != "" {
		batch, _ = strconv.Atoi(s)
	}
	budget := 20 * time.Second
	if crossCheck { // thorough tier
		budget = 90 * time.Second
	}
	t0 := time.Now()
	notes := map[string]int{}
	var mu sync.Mutex
	for round := 0; round < 12; round++ {
		out := filepath.Join(dir, fmt.Sprintf("tries-%d.jsonl", round))
		log, err := racRunHarness(overlay, out, batch, int64(solverSeed)+1+int64(round), -1)
		ts := racReadTries(out)
		os.Remove(out)
		if len(ts) == 0 {
			if res.Tries == 0 {
				res.Note = "harness produced no executions: " + lastLines(log, 6)
				if err != nil {
					res.Note += " (" + err.Error() + ")"
				}
				return res
			}
			break
		}
		res.Tries += len(ts)
		var wg sync.WaitGroup
		sem := make(chan struct{}, 16)
		for _, t := range ts {
			if t.GenErr != "" {
				continue
			}
			if time.Since(t0) > budget+budget/2 {
				break // the search is over budget: judge no further executions of this batch
			}
			t := t
			wg.Add(1)
			sem <- struct{}{}
			go func() {
				defer wg.Done()
				defer func() { <-sem }()
				legal, refuted, note := racEval(p, fn, fc, t)
				mu.Lock()
				defer mu.Unlock()
				if note != "" {
					notes[note]++
				}
				if !legal {
					return
				}
				res.Legal++
				if t.Hung && len(decTags(fc)) > 0 {
					// the call did not return within the harness' deadline on an admitted input: the termination
					// claims (decreases clauses) of the function are refuted by this execution
					res.Refuted = append(res.Refuted, racRefuted{Clause: "terminates (every loop has a decreases clause)", Tags: decTags(fc), Try: t.Try, Seed: t.Seed, Kind: "hang", Pre: t.Pre})
				}
				if t.Panic != "" {
					res.Refuted = append(res.Refuted, racRefuted{Clause: "panics", Tags: fc.PanicTags, Try: t.Try, Seed: t.Seed, Kind: "panic", Panic: t.Panic, Pre: t.Pre})
				}
				for _, c := range refuted {
					res.Refuted = append(res.Refuted, racRefuted{Clause: c.text, Tags: c.tags, Try: t.Try, Seed: t.Seed, Kind: "ensures", Pre: t.Pre})
				}
			}()
		}
		wg.Wait()
		if len(res.Refuted) > 0 || time.Since(t0) > budget {
			break
		}
	}
	sort.SliceStable(res.Refuted, func(i, j int) bool {
		if res.Refuted[i].Seed != res.Refuted[j].Seed {
			return res.Refuted[i].Seed < res.Refuted[j].Seed
		}
		return res.Refuted[i].Try < res.Refuted[j].Try
	})
	var ns []string
	for k, v := range notes {
		ns = append(ns, fmt.Sprintf("%s (x%d)", k, v))
	}
	sort.Strings(ns)
	if len(ns) > 4 {
		ns = ns[:4]
	}
	res.Note = strings.Join(ns, "; ")
	return res
}

func lastLines(s string, n int) string {
	ls := strings.Split(strings.TrimSpace(s), "\n")
	if len(ls) > n {
		ls = ls[len(ls)-n:]
	}
	return strings.Join(ls, " | ")
}

func (p *Program) lookupType(name string) types.Type {
	for _, tp := range p.typePkgs {
		if tp.Name() == "gmars" {
			if o := tp.Scope().Lookup(name); o != nil {
				if tn, ok := o.(*types.TypeName); ok {
					return tn.Type()
				}
			}
		}
	}
	return nil
}

// mentionsGhost: does the term (through the definitions it names) read a ghost heap?
func (e *Enc) mentionsGhost(s string, seen map[string]bool) bool {
	i := 0
	for i < len(s) {
		c := s[i]
		if c == '(' || c == ')' || c == ' ' {
			i++
			continue
		}
		j := i
		for j < len(s) && s[j] != '(' && s[j] != ')' && s[j] != ' ' {
			j++
		}
		tok := s[i:j]
		i = j
		if strings.HasPrefix(tok, "G.") {
			return true
		}
		if d, ok := e.defs[tok]; ok && !seen[tok] {
			seen[tok] = true
			if e.mentionsGhost(d, seen) {
				return true
			}
		}
	}
	return false
}

// decTags: the property tags of the termination claims of a function.
func decTags(fc *FuncC) []string {
	seen := map[string]bool{}
	var out []string
	add := func(ts []string) {
		for _, t := range ts {
			if !seen[t] {
				seen[t] = true
				out = append(out, t)
			}
		}
	}
	for _, c := range fc.Dec {
		add(c.Tags)
	}
	for _, l := range fc.Loops {
		for _, c := range l.Dec {
			add(c.Tags)
		}
	}
	sort.Strings(out)
	return out
}
