package main

// SMT terms, sorts and the mapping from Go types to sorts.

import (
	"fmt"
	"go/types"
	"math/big"
	"sort"
	"strings"
)

type Term struct {
	S    string
	Sort string
}

func (t Term) String() string { return t.S }

const (
	sInt   = "Int"
	sBool  = "Bool"
	sStr   = "Str"
	sSlice = "Slice"
)

func arrSort(elem string) string { return "(Array Int " + elem + ")" }

func app(op string, args ...string) string {
	return "(" + op + " " + strings.Join(args, " ") + ")"
}

func tInt(v int64) Term {
	if v < 0 {
		return Term{fmt.Sprintf("(- %d)", -v), sInt}
	}
	return Term{fmt.Sprintf("%d", v), sInt}
}

func tBig(v *big.Int) Term {
	if v.Sign() < 0 {
		return Term{"(- " + new(big.Int).Neg(v).String() + ")", sInt}
	}
	return Term{v.String(), sInt}
}

var tTrue = Term{"true", sBool}
var tFalse = Term{"false", sBool}

func tAnd(ts ...Term) Term {
	var parts []string
	for _, t := range ts {
		if t.S == "true" {
			continue
		}
		if t.S == "false" {
			return tFalse
		}
		parts = append(parts, t.S)
	}
	switch len(parts) {
	case 0:
		return tTrue
	case 1:
		return Term{parts[0], sBool}
	}
	return Term{app("and", parts...), sBool}
}

func tOr(ts ...Term) Term {
	var parts []string
	for _, t := range ts {
		if t.S == "false" {
			continue
		}
		if t.S == "true" {
			return tTrue
		}
		parts = append(parts, t.S)
	}
	switch len(parts) {
	case 0:
		return tFalse
	case 1:
		return Term{parts[0], sBool}
	}
	return Term{app("or", parts...), sBool}
}

func tNot(t Term) Term {
	if t.S == "true" {
		return tFalse
	}
	if t.S == "false" {
		return tTrue
	}
	return Term{app("not", t.S), sBool}
}

func tImp(a, b Term) Term {
	if a.S == "true" {
		return b
	}
	if a.S == "false" || b.S == "true" {
		return tTrue
	}
	return Term{app("=>", a.S, b.S), sBool}
}

// tCmp builds an integer comparison, folding numerals.
func tCmp(op string, a, b Term) Term {
	if isNumeral(a.S) && isNumeral(b.S) {
		x, _ := new(big.Int).SetString(numStr(a.S), 10)
		y, _ := new(big.Int).SetString(numStr(b.S), 10)
		c := x.Cmp(y)
		var r bool
		switch op {
		case "<":
			r = c < 0
		case "<=":
			r = c <= 0
		case ">":
			r = c > 0
		case ">=":
			r = c >= 0
		}
		if r {
			return tTrue
		}
		return tFalse
	}
	return Term{app(op, a.S, b.S), sBool}
}

func numStr(s string) string {
	if strings.HasPrefix(s, "(- ") {
		return "-" + s[3:len(s)-1]
	}
	return s
}

func tEq(a, b Term) Term {
	if a.S == b.S {
		return tTrue
	}
	if isNumeral(a.S) && isNumeral(b.S) {
		return tFalse
	}
	if (a.S == "true" && b.S == "false") || (a.S == "false" && b.S == "true") {
		return tFalse
	}
	return Term{app("=", a.S, b.S), sBool}
}

func tIte(c, a, b Term) Term {
	if c.S == "true" {
		return a
	}
	if c.S == "false" {
		return b
	}
	if a.S == b.S {
		return a
	}
	return Term{app("ite", c.S, a.S, b.S), a.Sort}
}

// sidx(off, i): position of element i of a slice in its backing array; an
// uninterpreted function (axiom: off + i) so that quantifier triggers contain no arithmetic.
func sidx(sl Term, i Term) Term {
	return Term{app("sidx", app("Slice_off", sl.S), i.S), sInt}
}

func tSelect(a, i Term) Term {
	// (Array Int X) -> X
	s := strings.TrimSpace(a.Sort)
	if !strings.HasPrefix(s, "(Array Int ") {
		panic("select on non-array sort " + a.Sort)
	}
	elem := s[len("(Array Int ") : len(s)-1]
	return Term{app("select", a.S, i.S), elem}
}

func tStore(a, i, v Term) Term {
	return Term{app("store", a.S, i.S, v.S), a.Sort}
}

func p2(n int) *big.Int {
	return new(big.Int).Lsh(big.NewInt(1), uint(n))
}

// ---------- type registry ----------

type structInfo struct {
	name   string // SMT datatype name
	goName string
	st     *types.Struct
	fields []fieldInfo
}

type fieldInfo struct {
	name string
	typ  types.Type
	sort string
}

type TypeReg struct {
	structs map[string]*structInfo // by SMT name
	order   []string
	strLits map[string]string // literal -> symbol
	strList []string
	sizes   types.Sizes
}

func newTypeReg() *TypeReg {
	return &TypeReg{structs: map[string]*structInfo{}, strLits: map[string]string{}, sizes: types.SizesFor("gc", "amd64")}
}

func typeKey(t types.Type) string {
	s := types.TypeString(t, func(p *types.Package) string { return "" })
	r := strings.NewReplacer("*", "P_", "[]", "S_", "[", "A", "]", "_", " ", "", "{", "", "}", "", ";", "_", "(", "", ")", "", ",", "_", ".", "_", "/", "_")
	return r.Replace(s)
}

// sortOf maps a Go type to an SMT sort, registering struct datatypes on the way.
func (r *TypeReg) sortOf(t types.Type) string {
	switch u := t.Underlying().(type) {
	case *types.Basic:
		switch {
		case u.Info()&types.IsBoolean != 0:
			return sBool
		case u.Info()&types.IsString != 0:
			return sStr
		case u.Info()&types.IsInteger != 0:
			return sInt
		case u.Kind() == types.UnsafePointer:
			return sInt
		case u.Kind() == types.UntypedNil:
			return sInt
		}
		return sInt
	case *types.Pointer, *types.Map, *types.Chan, *types.Signature, *types.Interface:
		return sInt
	case *types.Slice:
		return sSlice
	case *types.Struct:
		return r.structOf(t).name
	case *types.Array:
		return arrSort(r.sortOf(u.Elem()))
	case *types.Tuple:
		return "Tuple"
	}
	return sInt
}

func (r *TypeReg) structOf(t types.Type) *structInfo {
	st := t.Underlying().(*types.Struct)
	var name string
	if n, ok := t.(*types.Named); ok {
		name = "T_" + n.Obj().Name()
		if n.Obj().Pkg() != nil && n.Obj().Pkg().Name() != "gmars" {
			name = "T_" + n.Obj().Pkg().Name() + "_" + n.Obj().Name()
		}
	} else {
		name = "T_anon_" + typeKey(t)
	}
	if si, ok := r.structs[name]; ok {
		return si
	}
	si := &structInfo{name: name, st: st, goName: strings.TrimPrefix(name, "T_")}
	r.structs[name] = si // register before recursion
	for i := 0; i < st.NumFields(); i++ {
		f := st.Field(i)
		si.fields = append(si.fields, fieldInfo{name: f.Name(), typ: f.Type(), sort: r.sortOf(f.Type())})
	}
	r.order = append(r.order, name)
	return si
}

func (si *structInfo) fieldIndex(name string) int {
	for i, f := range si.fields {
		if f.name == name {
			return i
		}
	}
	return -1
}

func (si *structInfo) acc(i int) string { return si.name + "_" + si.fields[i].name }
func (si *structInfo) ctor() string     { return "mk_" + si.name }

func (si *structInfo) get(v Term, i int) Term {
	return Term{app(si.acc(i), v.S), si.fields[i].sort}
}

func (si *structInfo) with(v Term, i int, nv Term) Term {
	args := make([]string, len(si.fields))
	for k := range si.fields {
		if k == i {
			args[k] = nv.S
		} else {
			args[k] = app(si.acc(k), v.S)
		}
	}
	if len(args) == 0 {
		return Term{si.ctor(), si.name}
	}
	return Term{app(si.ctor(), args...), si.name}
}

func (r *TypeReg) strLit(s string) Term {
	if sym, ok := r.strLits[s]; ok {
		return Term{sym, sStr}
	}
	sym := fmt.Sprintf("str%d", len(r.strList))
	r.strLits[s] = sym
	r.strList = append(r.strList, s)
	return Term{sym, sStr}
}

// zero value of a Go type
func (r *TypeReg) zero(t types.Type) Term {
	srt := r.sortOf(t)
	switch srt {
	case sInt:
		return tInt(0)
	case sBool:
		return tFalse
	case sStr:
		return r.strLit("")
	case sSlice:
		return Term{"(mk_Slice 0 0 0 0)", sSlice}
	}
	switch u := t.Underlying().(type) {
	case *types.Struct:
		si := r.structOf(t)
		args := make([]string, len(si.fields))
		for i, f := range si.fields {
			args[i] = r.zero(f.typ).S
		}
		if len(args) == 0 {
			return Term{si.ctor(), si.name}
		}
		return Term{app(si.ctor(), args...), si.name}
	case *types.Array:
		es := r.sortOf(u.Elem())
		return Term{app("(as const "+arrSort(es)+")", r.zero(u.Elem()).S), arrSort(es)}
	}
	panic("zero: unsupported type " + t.String())
}

// intRange returns (lo, hi) inclusive bounds for an integer type, ok=false if not an integer.
func (r *TypeReg) intRange(t types.Type) (lo, hi *big.Int, ok bool) {
	b, isB := t.Underlying().(*types.Basic)
	if !isB || b.Info()&types.IsInteger == 0 {
		return nil, nil, false
	}
	bits := int(r.sizes.Sizeof(t)) * 8
	if b.Kind() == types.UntypedInt || b.Kind() == types.UntypedRune {
		return nil, nil, false
	}
	if b.Info()&types.IsUnsigned != 0 {
		return big.NewInt(0), new(big.Int).Sub(p2(bits), big.NewInt(1)), true
	}
	return new(big.Int).Neg(p2(bits - 1)), new(big.Int).Sub(p2(bits-1), big.NewInt(1)), true
}

// rangeFact returns the well-typedness fact for a value of Go type t (true if none).
func (r *TypeReg) rangeFact(t types.Type, v Term) Term {
	if lo, hi, ok := r.intRange(t); ok {
		return tAnd(Term{app("<=", tBig(lo).S, v.S), sBool}, Term{app("<=", v.S, tBig(hi).S), sBool})
	}
	switch t.Underlying().(type) {
	case *types.Struct:
		si := r.structOf(t)
		var fs []Term
		for i, f := range si.fields {
			fs = append(fs, r.rangeFact(f.typ, si.get(v, i)))
		}
		return tAnd(fs...)
	case *types.Slice:
		return Term{app("wfSlice", v.S), sBool}
	case *types.Pointer, *types.Map, *types.Chan:
		return Term{app("<=", "0", v.S), sBool}
	}
	return tTrue
}

// preamble emits sort and datatype declarations.
func (r *TypeReg) preamble() string {
	var b strings.Builder
	b.WriteString("(declare-sort Str 0)\n")
	b.WriteString("(declare-fun strlen (Str) Int)\n")
	b.WriteString("(declare-datatypes ((Slice 0)) (((mk_Slice (Slice_arr Int) (Slice_off Int) (Slice_len Int) (Slice_cap Int)))))\n")
	b.WriteString("(define-fun wfSlice ((s Slice)) Bool (and (<= 0 (Slice_arr s)) (<= 0 (Slice_off s)) (<= 0 (Slice_len s)) (<= (Slice_len s) (Slice_cap s)) (<= (Slice_cap s) 72057594037927936) (=> (= (Slice_arr s) 0) (and (= (Slice_len s) 0) (= (Slice_cap s) 0)))))\n")
	// struct datatypes in dependency order (order of completion of registration)
	for _, name := range r.order {
		si := r.structs[name]
		if len(si.fields) == 0 {
			fmt.Fprintf(&b, "(declare-datatypes ((%s 0)) (((%s))))\n", si.name, si.ctor())
			continue
		}
		var fs []string
		for i, f := range si.fields {
			fs = append(fs, fmt.Sprintf("(%s %s)", si.acc(i), f.sort))
		}
		fmt.Fprintf(&b, "(declare-datatypes ((%s 0)) (((%s %s))))\n", si.name, si.ctor(), strings.Join(fs, " "))
	}
	b.WriteString("(declare-fun sidx (Int Int) Int)\n(assert (forall ((o Int) (i Int)) (! (= (sidx o i) (+ o i)) :pattern ((sidx o i)))))\n")
	b.WriteString("(declare-fun mulI (Int Int) Int)\n")
	b.WriteString(ufArithAxioms)
	// string literals
	for i, s := range r.strList {
		fmt.Fprintf(&b, "(declare-const str%d Str) ; %q\n", i, s)
		fmt.Fprintf(&b, "(assert (= (strlen str%d) %d))\n", i, len(s))
	}
	if len(r.strList) > 1 {
		var syms []string
		for i := range r.strList {
			syms = append(syms, fmt.Sprintf("str%d", i))
		}
		fmt.Fprintf(&b, "(assert (distinct %s))\n", strings.Join(syms, " "))
	}
	b.WriteString("(assert (forall ((s Str)) (! (>= (strlen s) 0) :pattern ((strlen s)))))\n")
	return b.String()
}

func sortedKeys[V any](m map[string]V) []string {
	ks := make([]string, 0, len(m))
	for k := range m {
		ks = append(ks, k)
	}
	sort.Strings(ks)
	return ks
}

// Axioms of the UF arithmetic mode. Each is an instance of a fact about Euclidean
// div/mod and is proved against the native operators by `gvc axioms`.
var ufAxiomBodies = []struct{ name, vars, pat, body string }{
	{"umod-range", "((x Int) (y Int))", "(umod x y)", "(=> (> y 0) (and (<= 0 (umod x y)) (< (umod x y) y)))"},
	{"umod-small", "((x Int) (y Int))", "(umod x y)", "(=> (and (<= 0 x) (< x y)) (= (umod x y) x))"},
	{"umod-1y", "((x Int) (y Int))", "(umod x y)", "(=> (and (> y 0) (<= y x) (< x (* 2 y))) (= (umod x y) (- x y)))"},
	{"umod-2y", "((x Int) (y Int))", "(umod x y)", "(=> (and (> y 0) (<= (* 2 y) x) (< x (* 3 y))) (= (umod x y) (- x (* 2 y))))"},
	{"udiv-range", "((x Int) (y Int))", "(udiv x y)", "(=> (and (<= 0 x) (> y 0)) (and (<= 0 (udiv x y)) (<= (udiv x y) x)))"},
	{"udiv-small", "((x Int) (y Int))", "(udiv x y)", "(=> (and (<= 0 x) (< x y)) (= (udiv x y) 0))"},
	{"umod-udiv", "((x Int) (y Int))", "(umod x y)", "(=> (and (<= 0 x) (> y 0)) (<= (umod x y) x))"},
}

var ufArithAxioms = func() string {
	var b strings.Builder
	b.WriteString("(declare-fun umod (Int Int) Int)\n(declare-fun udiv (Int Int) Int)\n")
	for _, a := range ufAxiomBodies {
		fmt.Fprintf(&b, "(assert (forall %s (! %s :pattern (%s)))) ; %s\n", a.vars, a.body, a.pat, a.name)
	}
	return b.String()
}()
