package main

import (
	"fmt"
	"os"
	"sort"
	"strings"
	"sync"

	"golang.org/x/tools/go/ssa"
)

var ufDecls = map[string]string{
	"strcat":      "(declare-fun strcat (Str Str) Str)",
	"substr":      "(declare-fun substr (Str Int Int) Str)",
	"strat":       "(declare-fun strat (Str Int) Int)",
	"str_of_rune": "(declare-fun str_of_rune (Int) Str)",
	"strlt":       "(declare-fun strlt (Str Str) Bool)",
}

// script assembles the common prefix of all queries of an encoded function.
func (e *Enc) script() string {
	var b strings.Builder
	b.WriteString("(set-option :produce-models true)\n(set-logic ALL)\n")
	b.WriteString(e.reg.preamble())
	for _, k := range sortedKeys(ufDecls) {
		b.WriteString(ufDecls[k] + "\n")
	}
	for _, k := range sortedKeys(e.p.ufs) {
		uf := e.p.ufs[k]
		fmt.Fprintf(&b, "(declare-fun %s (%s) %s)\n", k, strings.Join(uf.args, " "), uf.res)
	}
	for _, k := range sortedKeys(e.heapInits) {
		t := e.heapInits[k]
		fmt.Fprintf(&b, "(declare-const %s %s)\n", t.S, t.Sort)
	}
	// function values are pairwise distinct and non-nil
	var fns []string
	for _, k := range sortedKeys(e.heapInits) {
		if strings.HasPrefix(k, "fn.") {
			fns = append(fns, e.heapInits[k].S)
		}
	}
	if len(fns) > 0 {
		fmt.Fprintf(&b, "(assert (distinct 0 %s))\n", strings.Join(fns, " "))
	}
	for _, l := range e.lines {
		b.WriteString(l)
		b.WriteString("\n")
	}
	return b.String()
}

type splitCase struct {
	label  string
	assert string
}

// cases enumerates the split cases of a function contract (cartesian product + remainder).
func (e *Enc) cases() []splitCase {
	if e.fc == nil || len(e.fc.Splits) == 0 {
		return []splitCase{{"", ""}}
	}
	ctx0 := e.ctx(e.init, e.init, nil)
	type dim struct {
		term   string
		lo, hi int64
		text   string
	}
	var dims []dim
	for _, s := range e.fc.Splits {
		t := ctx0.evalInt(s.E)
		dims = append(dims, dim{t.S, s.Lo, s.Hi, s.Text})
	}
	out := []splitCase{{"", ""}}
	for _, d := range dims {
		var next []splitCase
		for _, c := range out {
			for v := d.lo; v <= d.hi; v++ {
				next = append(next, splitCase{c.label + fmt.Sprintf("%s=%d ", d.text, v), c.assert + fmt.Sprintf("(assert (= %s %d))\n", d.term, v)})
			}
		}
		out = next
	}
	// remainder: some split expression outside its range
	var outside []string
	for _, d := range dims {
		outside = append(outside, fmt.Sprintf("(< %s %d) (> %s %d)", d.term, d.lo, d.term, d.hi))
	}
	out = append(out, splitCase{"remainder ", fmt.Sprintf("(assert (or %s))\n", strings.Join(outside, " "))})
	return out
}

type FuncResult struct {
	Name     string
	Err      string
	Obls     []*Obl // one entry per obligation per case
	Warnings []string
	Cases    int
}

func cloneObl(o *Obl, c string) *Obl {
	n := *o
	n.Case = strings.TrimSpace(c)
	return &n
}

// verifyFunc encodes and discharges all obligations of one function.
func verifyFunc(p *Program, fn *ssa.Function, fc *FuncC, timeoutS int, filter func(*Obl) bool) *FuncResult {
	res := &FuncResult{Name: funcName(fn)}
	e := newEnc(p, fn, fc)
	if err := e.Encode(); err != nil {
		res.Err = err.Error()
		return res
	}
	res.Warnings = e.warnings
	if len(e.obls) == 0 {
		return res
	}
	var casesList []splitCase
	func() {
		defer func() {
			if r := recover(); r != nil {
				if ee, ok := r.(evalError); ok {
					res.Err = "contract error in split: " + ee.msg
					return
				}
				panic(r)
			}
		}()
		casesList = e.cases()
	}()
	if res.Err != "" {
		return res
	}
	prefix := e.script()
	res.Cases = len(casesList)
	var mu sync.Mutex
	var wg sync.WaitGroup
	for _, cs := range casesList {
		cs := cs
		if f := os.Getenv("GVC_CASE"); f != "" && !strings.Contains(cs.label, f) {
			continue
		}
		wg.Add(1)
		go func() {
			defer wg.Done()
			obls := e.obls
			if f := os.Getenv("GVC_OBL"); f != "" {
				var fl []*Obl
				for _, o := range obls {
					if strings.Contains(o.Name, f) {
						fl = append(fl, o)
					}
				}
				obls = fl
				if filter == nil {
					filter = func(*Obl) bool { return true }
				}
			}
			if filter != nil {
				var f []*Obl
				for _, o := range obls {
					if filter(o) {
						f = append(f, o)
					}
				}
				obls = f
			}
			if len(obls) == 0 {
				return
			}
			// batch: all selected obligations at once
			var goal string
			{
				var parts []string
				if filter == nil {
					parts = append(parts, e.okCur)
				}
				for _, o := range obls {
					if filter != nil || o.terminal {
						parts = append(parts, fmt.Sprintf("(=> %s %s)", o.okPre, o.obSym))
					}
				}
				goal = fmt.Sprintf("(assert (not (and %s)))\n", strings.Join(parts, " "))
			}
			r := solveStaged(prefix+cs.assert+goal+"(check-sat)\n", timeoutS)
			if r.Result == "unsat" {
				mu.Lock()
				for _, o := range obls {
					n := cloneObl(o, cs.label)
					n.Result, n.Solver, n.TimeS = "unsat", r.Solver, r.TimeS/float64(len(obls))
					res.Obls = append(res.Obls, n)
				}
				mu.Unlock()
				return
			}
			// pinpoint
			var wg2 sync.WaitGroup
			for _, o := range obls {
				o := o
				wg2.Add(1)
				go func() {
					defer wg2.Done()
					q := prefix + cs.assert + fmt.Sprintf("(assert %s)\n(assert (not %s))\n(check-sat)\n", o.okPre, o.obSym)
					r := solveStaged(q, timeoutS)
					n := cloneObl(o, cs.label)
					n.Result, n.Solver, n.TimeS = r.Result, r.Solver, r.TimeS
					if r.Result == "error" {
						n.Model = r.Output
					}
					mu.Lock()
					res.Obls = append(res.Obls, n)
					mu.Unlock()
				}()
			}
			wg2.Wait()
		}()
	}
	wg.Wait()
	sort.SliceStable(res.Obls, func(i, j int) bool {
		if res.Obls[i].Case != res.Obls[j].Case {
			return res.Obls[i].Case < res.Obls[j].Case
		}
		return res.Obls[i].ID < res.Obls[j].ID
	})
	return res
}
