package main

import (
	"fmt"
	"go/types"
	"os"
	"sort"
	"strconv"
	"strings"
	"sync"

	"golang.org/x/tools/go/ssa"
)

var ufDecls = map[string]string{
	"strcat":      "(declare-fun strcat (Str Str) Str)",
	"substr":      "(declare-fun substr (Str Int Int) Str)",
	"strat":       "(declare-fun strat (Str Int) Int)",
	"str_of_rune": "(declare-fun str_of_rune (Int) Str)",
	"strlt":       "(declare-fun strlt (Str Str) Bool)",
}

// script assembles the common prefix of all queries of an encoded function.
func (e *Enc) script() string {
	var b strings.Builder
	for _, k := range sortedKeys(ufDecls) {
		b.WriteString(ufDecls[k] + "\n")
	}
	for _, k := range sortedKeys(e.p.ufs) {
		uf := e.p.ufs[k]
		fmt.Fprintf(&b, "(declare-fun %s (%s) %s)\n", k, strings.Join(uf.args, " "), uf.res)
	}
	// contract-level uninterpreted functions with their definitional axioms
	for _, k := range sortedKeys(e.p.cs.UFs) {
		if !e.usedUF[k] {
			continue
		}
		uf := e.p.cs.UFs[k]
		var decl, sorts, args []string
		vars := map[string]CVal{}
		for _, pa := range uf.Params {
			n := "u_" + pa.Name
			srt := ufSort(pa.Type)
			decl = append(decl, "("+n+" "+srt+")")
			sorts = append(sorts, srt)
			args = append(args, n)
			cv := CVal{T: Term{n, srt}}
			if srt == sStr {
				cv.GT = types.Typ[types.String]
			}
			vars[pa.Name] = cv
		}
		res := ufSort(uf.Result)
		if uf.Body == nil {
			res = ufSort(uf.Result)
		}
		fmt.Fprintf(&b, "(declare-fun uf_%s (%s) %s)\n", k, strings.Join(sorts, " "), res)
		if uf.Body != nil {
			e.inQuant++
			body := (&Ctx{e: e, st: e.init, old: e.init, vars: vars}).eval(uf.Body).T
			e.inQuant--
			fmt.Fprintf(&b, "(assert (forall (%s) (! (= (uf_%s %s) %s) :pattern ((uf_%s %s)))))\n", strings.Join(decl, " "), k, strings.Join(args, " "), body.S, k, strings.Join(args, " "))
		}
	}
	for _, k := range sortedKeys(e.heapInits) {
		t := e.heapInits[k]
		fmt.Fprintf(&b, "(declare-const %s %s)\n", t.S, t.Sort)
		if ax := e.heapTypingAlloc(k, t, "alloc@0"); ax != "" {
			b.WriteString(ax + "\n")
		}
		if k == "G.chan.nsent" {
			fmt.Fprintf(&b, "(assert (forall ((c! Int)) (! (>= (select %s c!) 0) :pattern ((select %s c!)))))\n", t.S, t.S)
		}
	}
	for _, k := range sortedKeys(e.extraDecls) {
		fmt.Fprintf(&b, "(declare-const %s %s)\n", k, e.extraDecls[k])
	}
	// function values are pairwise distinct and non-nil
	var fns []string
	for _, k := range sortedKeys(e.heapInits) {
		if strings.HasPrefix(k, "fn.") {
			fns = append(fns, e.heapInits[k].S)
		}
	}
	if len(fns) > 0 {
		fmt.Fprintf(&b, "(assert (distinct 0 %s))\n", strings.Join(fns, " "))
	}
	for _, k := range sortedKeys(e.boxDecls) {
		fmt.Fprintf(&b, "(declare-fun %s (%s) Int)\n", k, e.boxDecls[k])
	}
	// some uninterpreted string functions are evaluated by gvc itself on every string literal of the script
	if e.usedUF["lower"] {
		for i := 0; i < len(e.reg.strList); i++ {
			lit := e.reg.strList[i]
			fmt.Fprintf(&b, "(assert (= (uf_lower %s) %s))\n", e.reg.strLit(lit).S, e.reg.strLit(strings.ToLower(lit)).S)
		}
	}
	if e.usedUF["atoi"] {
		// atoi(s) is the value strconv.ParseInt(s, 10, 64) returns when it succeeds
		for i := 0; i < len(e.reg.strList); i++ {
			if n, err := strconv.ParseInt(e.reg.strList[i], 10, 64); err == nil {
				fmt.Fprintf(&b, "(assert (= (uf_atoi %s) %s))\n", e.reg.strLit(e.reg.strList[i]).S, tInt(n).S)
			}
		}
	}
	if e.keepDefs && e.usedUF["sprintf"] {
		// replay only: Sprintf("%d", n) is the decimal rendering of n, stated for the numerals that occur as literals
		pd := e.reg.strLit("%d").S
		for i := 0; i < len(e.reg.strList); i++ {
			lit := e.reg.strList[i]
			n, err := strconv.ParseInt(lit, 10, 64)
			if err != nil || strconv.FormatInt(n, 10) != lit {
				continue
			}
			for _, bx := range sortedKeys(e.boxDecls) {
				if e.boxDecls[bx] != sInt {
					continue
				}
				fmt.Fprintf(&b, "(assert (forall ((a! (Array Int Int))) (! (=> (= (select a! 0) (%s %s)) (= (uf_sprintf %s a! 1) %s)) :pattern ((uf_sprintf %s a! 1)))))\n",
					bx, tInt(n).S, pd, e.reg.strLit(lit).S, pd)
			}
		}
	}
	if e.usedUF["runes"] {
		for i := 0; i < len(e.reg.strList); i++ {
			fmt.Fprintf(&b, "(assert (= (uf_runes %s) %d))\n", e.reg.strLit(e.reg.strList[i]).S, len([]rune(e.reg.strList[i])))
		}
	}
	if e.usedUF["endsNL"] {
		for i := 0; i < len(e.reg.strList); i++ {
			fmt.Fprintf(&b, "(assert (= (uf_endsNL %s) %v))\n", e.reg.strLit(e.reg.strList[i]).S, strings.HasSuffix(e.reg.strList[i], "\n"))
		}
	}
	for _, l := range e.lines {
		b.WriteString(l)
		b.WriteString("\n")
	}
	// the preamble is produced last: encoding may have registered further literals and datatypes
	return "(set-option :produce-models true)\n(set-logic ALL)\n" + e.reg.preamble() + b.String()
}

type splitCase struct {
	label string
	vals  []int64
	rest  bool
}

// splitCases enumerates the split cases of a function contract (cartesian product + remainder).
func splitCases(splits []SplitSpec) []splitCase {
	if len(splits) == 0 {
		return []splitCase{{}}
	}
	out := []splitCase{{}}
	for _, d := range splits {
		var next []splitCase
		for _, c := range out {
			for v := d.Lo; v <= d.Hi; v++ {
				next = append(next, splitCase{label: c.label + fmt.Sprintf("%s=%d ", d.Text, v), vals: append(append([]int64{}, c.vals...), v)})
			}
		}
		out = next
	}
	out = append(out, splitCase{label: "remainder ", rest: true})
	return out
}

type FuncResult struct {
	Name     string
	Err      string
	Obls     []*Obl // one entry per obligation per case
	Warnings []string
	Cases    int
}

func cloneObl(o *Obl, c string) *Obl {
	n := *o
	n.Case = strings.TrimSpace(c)
	return &n
}

// verifyFunc encodes and discharges all obligations of one function, with one
// specialised encoding per split case.
func verifyFunc(p *Program, fn *ssa.Function, fc *FuncC, timeoutS int, filter0 func(*Obl) bool) *FuncResult {
	res := &FuncResult{Name: funcName(fn)}
	type phaseCase struct {
		splitCase
		phase int
	}
	var casesList []phaseCase
	if fc != nil && fc.Cut != nil {
		for _, c := range splitCases(fc.Splits) {
			c.label = "phase1 " + c.label
			casesList = append(casesList, phaseCase{c, 1})
		}
		for _, c := range splitCases(fc.Cut.Splits) {
			c.label = "phase2 " + c.label
			casesList = append(casesList, phaseCase{c, 2})
		}
	} else if fc != nil {
		for _, c := range splitCases(fc.Splits) {
			casesList = append(casesList, phaseCase{c, 0})
		}
	} else {
		casesList = []phaseCase{{}}
	}
	res.Cases = len(casesList)
	var mu sync.Mutex
	var wg sync.WaitGroup
	caseSem := make(chan struct{}, 24)
	for _, cs := range casesList {
		cs := cs
		if f := os.Getenv("GVC_CASE"); f != "" && !strings.Contains(cs.label, f) {
			continue
		}
		wg.Add(1)
		go func() {
			defer wg.Done()
			caseSem <- struct{}{}
			defer func() { <-caseSem }()
			filter := filter0
			e := newEnc(p, fn, fc)
			e.caseVals, e.caseRest, e.caseLabel, e.phase = cs.vals, cs.rest, cs.label, cs.phase
			if err := e.Encode(); err != nil {
				mu.Lock()
				if res.Err == "" {
					res.Err = err.Error()
				}
				mu.Unlock()
				return
			}
			mu.Lock()
			if len(e.warnings) > 0 && len(res.Warnings) == 0 {
				res.Warnings = e.warnings
			}
			mu.Unlock()
			prefix := e.script()
			obls := e.obls
			if f := os.Getenv("GVC_OBL"); f != "" {
				var fl []*Obl
				for _, o := range obls {
					if strings.Contains(o.Name, f) {
						fl = append(fl, o)
					}
				}
				obls = fl
				if filter == nil {
					filter = func(*Obl) bool { return true }
				}
			}
			if filter != nil {
				var f []*Obl
				for _, o := range obls {
					if filter(o) {
						f = append(f, o)
					}
				}
				obls = f
			}
			if len(obls) == 0 {
				return
			}
			// batch first; on failure bisect down to the failing obligations
			record := func(os []*Obl, r solveResult) {
				mu.Lock()
				for _, o := range os {
					n := cloneObl(o, cs.label)
					n.Result, n.Solver, n.TimeS = r.Result, r.Solver, r.TimeS/float64(len(os))
					if r.Result != "unsat" {
						n.Model = r.Output
					}
					res.Obls = append(res.Obls, n)
				}
				mu.Unlock()
			}
			goalOf := func(os []*Obl, whole bool) string {
				var parts []string
				if whole && filter == nil {
					parts = append(parts, e.okCur)
					for _, o := range os {
						if o.terminal {
							parts = append(parts, fmt.Sprintf("(=> %s %s)", o.okPre, o.obSym))
						}
					}
				} else {
					for _, o := range os {
						parts = append(parts, fmt.Sprintf("(=> %s %s)", o.okPre, o.obSym))
					}
				}
				return fmt.Sprintf("(assert (not (and %s)))\n", strings.Join(parts, " "))
			}
			var rec func(os []*Obl, whole bool)
			rec = func(os []*Obl, whole bool) {
				var r solveResult
				if len(os) == 1 {
					q := prefix + fmt.Sprintf("(assert %s)\n(assert (not %s))\n(check-sat)\n", os[0].okPre, os[0].obSym)
					if _, failedBefore := oblFailed.Load(os[0].Name); failedBefore {
						// the obligation already resisted every retry in another split case: one attempt is enough here
						r = solve(q, timeoutS, "")
					} else {
						r = solveLeaf(q, timeoutS)
						if r.Result != "unsat" {
							oblFailed.Store(os[0].Name, true)
						}
					}
				} else if whole {
					r = solveStaged(prefix+goalOf(os, whole)+"(check-sat)\n", timeoutS)
				} else {
					// inner node of the bisection: only guides the search, so a short timeout is enough
					r = solve(prefix+goalOf(os, whole)+"(check-sat)\n", 3, "")
				}
				if r.Result == "unsat" && crossCheck {
					crossCheckQuery(prefix+goalOf(os, whole)+"(check-sat)\n", r.Solver, timeoutS)
				}
				if r.Result == "unsat" || len(os) == 1 {
					record(os, r)
					return
				}
				mid := len(os) / 2
				var wg3 sync.WaitGroup
				wg3.Add(2)
				go func() { defer wg3.Done(); rec(os[:mid], false) }()
				go func() { defer wg3.Done(); rec(os[mid:], false) }()
				wg3.Wait()
			}
			rec(obls, true)
		}()
	}
	wg.Wait()
	sort.SliceStable(res.Obls, func(i, j int) bool {
		if res.Obls[i].Case != res.Obls[j].Case {
			return res.Obls[i].Case < res.Obls[j].Case
		}
		return res.Obls[i].ID < res.Obls[j].ID
	})
	return res
}

// thorough tier: every discharged batch is re-run on the other solvers; agreement is recorded and a
// `sat` answer contradicting an `unsat` one is a hard tooling error.
var oblFailed sync.Map // obligation names that failed after all retries

var crossCheck bool
var crossMu sync.Mutex
var crossStats = map[string]int{}

func crossCheckQuery(q, winner string, timeoutS int) {
	for _, s := range solvers {
		if s.name == winner {
			continue
		}
		r := solveSeed(q, timeoutS, s.name, solverSeed)
		crossMu.Lock()
		crossStats["queries"]++
		switch r.Result {
		case "unsat":
			crossStats["agree_unsat"]++
		case "sat":
			crossStats["contradictions"]++
		default:
			crossStats["undecided"]++
		}
		crossMu.Unlock()
	}
}
