package main

import (
	"fmt"
	"go/types"
	"sort"
	"strings"

	"golang.org/x/tools/go/ssa"
)

func (e *Enc) call(x *ssa.Call, st *State) {
	cc := &x.Call
	if cc.IsInvoke() {
		e.invoke(x, st)
		return
	}
	if b, ok := cc.Value.(*ssa.Builtin); ok {
		e.builtin(x, b, st)
		return
	}
	callee := cc.StaticCallee()
	if callee == nil {
		e.dynCall(x, st)
		return
	}
	name := funcName(callee)
	fc := e.p.cs.Funcs[name]
	if fc == nil {
		// functions of side-effect free standard packages get the default assumed contract
		// "modifies nothing, returns some value of the result type"
		pkgPath := ""
		if callee.Pkg != nil {
			pkgPath = callee.Pkg.Pkg.Path()
		} else if o := callee.Origin(); o != nil && o.Pkg != nil {
			pkgPath = o.Pkg.Pkg.Path() // an instance of a generic function
		}
		if purePackages[pkgPath] {
			fc = &FuncC{Name: name, Kind: "extern", HasMod: true, Loops: map[int]*LoopC{}}
			e.defaultExterns[name] = true
		} else {
			panic(unsupported{"call of " + name + " which has no contract"})
		}
	}
	var args []Val
	for _, a := range cc.Args {
		args = append(args, e.val(a))
	}
	e.applyContract(x, name, fc, callee.Params, callee.Signature, args, st)
}

// applyContract encodes a call through the callee's contract.
func (e *Enc) applyContract(x ssa.Value, name string, fc *FuncC, params []*ssa.Parameter, sig *types.Signature, args []Val, st *State) {
	vars := map[string]CVal{}
	for i, p := range params {
		if i >= len(args) {
			break
		}
		if args[i].Loc != nil {
			panic(unsupported{"passing an interior pointer to " + name})
		}
		vars[p.Name()] = CVal{T: args[i].T, GT: p.Type()}
	}
	e.applyContractVars(x, name, fc, vars, sig, st)
}

func (e *Enc) applyContractVars(x ssa.Value, name string, fc *FuncC, vars map[string]CVal, sig *types.Signature, st *State) {
	pos := x.Pos()
	pre := st.clone()
	cpre := &Ctx{e: e, st: pre, old: pre, vars: vars}
	// the callee's spec values are functions of its entry state
	needSpecs := true
	if e.fc != nil && len(e.fc.Uses) > 0 && !hasTag(e.fc.Uses, "C01") && !hasTag(e.fc.Uses, "C11") {
		needSpecs = false // the spec values only occur in the functional clauses
	}
	for _, sp := range fc.Specs {
		if !needSpecs {
			break
		}
		v := cpre.eval(sp.E)
		v.T = e.def("cspec_"+sp.Name, v.T)
		vars[sp.Name] = v
	}
	e.oblCtr["callsite:"+name]++
	site := fmt.Sprintf("call:%s@%d", name, e.oblCtr["callsite:"+name])
	for k, rq := range fc.Req {
		cj := e.p.conjuncts(rq.E, deepSplit)
		for j, cx := range cj {
			label := fmt.Sprintf("%s #%d %s", site, k+1, rq.Text)
			if len(cj) > 1 {
				label = fmt.Sprintf("%s #%d.%d %s", site, k+1, j+1, exprString(cx))
			}
			tags := rq.Tags
			if len(tags) == 0 {
				tags = e.panicTags
			}
			e.oblige("pre", label, tags, cpre.evalBool(cx), pos)
		}
	}
	// frame: the callee's modifies must be inside ours; then havoc
	var mods []modRef
	for _, t := range fc.Mod {
		mods = append(mods, e.evalTarget(cpre, t)...)
	}
	for _, m := range mods {
		if e.fc != nil {
			var cond Term
			if m.wild {
				// every object of the callee's set must be in our frame
				n := e.freshName("q_r")
				r := Term{n, sInt}
				e.inQuant++
				inner := tImp(m.wildCond(r), e.allowedWrite(m.heapName, r, nil))
				e.inQuant--
				cond = Term{fmt.Sprintf("(forall ((%s Int)) %s)", n, inner.S), sBool}
			} else {
				cond = e.allowedWrite(m.heapName, m.ref, m.idx)
			}
			if cond.S != "true" {
				e.oblige("frame", fmt.Sprintf("%s modifies %s", site, m.t.Text), e.fc.frameTags(), cond, pos)
			}
		}
	}
	// havoc
	for _, m := range mods {
		srt := m.heapSort
		h := st.heapGet(e, m.heapName, srt)
		if m.wild {
			nh := e.havoc(m.heapName, srt)
			if ax := e.heapTyping(m.heapName, nh); ax != "" {
				e.emit("%s", ax)
			}
			n := e.freshName("q_r")
			r := Term{n, sInt}
			e.inQuant++
			fact := tOr(m.wildCond(r), tEq(tSelect(nh, r), tSelect(h, r)))
			e.inQuant--
			e.assume(Term{fmt.Sprintf("(forall ((%s Int)) (! %s :pattern (%s)))", n, fact.S, tSelect(nh, r).S), sBool})
			st.heap[m.heapName] = nh
		} else if m.idx != nil {
			inner := tSelect(h, m.ref)
			cell := e.havoc(m.heapName+".elem", tSelect(inner, *m.idx).Sort)
			e.cellTyping(m.heapName, cell)
			st.heap[m.heapName] = e.def(m.heapName, tStore(h, m.ref, tStore(inner, *m.idx, cell)))
		} else {
			cell := e.havoc(m.heapName+".cell", tSelect(h, m.ref).Sort)
			e.cellTyping(m.heapName, cell)
			st.heap[m.heapName] = e.def(m.heapName, tStore(h, m.ref, cell))
		}
	}
	// channel logs are append-only
	for _, m := range mods {
		if m.t.Chan && strings.HasPrefix(m.heapName, "G.chan.log.") {
			ref := m.ref
			e.appendOnly(pre.heapGet(e, "G.chan.nsent", arrSort(sInt)), pre.heapGet(e, m.heapName, m.heapSort), st.heapGet(e, "G.chan.nsent", arrSort(sInt)), st.heapGet(e, m.heapName, m.heapSort), &ref)
		}
	}
	// allocation may have advanced
	na := e.havoc("alloc", sInt)
	e.assume(Term{app(">=", na.S, st.alloc.S), sBool})
	st.alloc = na
	// results
	res := sig.Results()
	var rvals []Val
	for i := 0; i < res.Len(); i++ {
		rt := res.At(i).Type()
		t := e.havoc("ret_"+sanitize(name), e.reg.sortOf(rt))
		rvals = append(rvals, Val{T: t})
		cv := CVal{T: t, GT: rt}
		vars[fmt.Sprintf("result.%d", i)] = cv
		if i == 0 {
			vars["result"] = cv
		}
		if n := res.At(i).Name(); n != "" && n != "_" {
			if _, clash := vars[n]; !clash {
				vars[n] = cv
			}
		}
		if i == res.Len()-1 && types.Identical(rt, types.Universe.Lookup("error").Type()) {
			vars["err"] = cv
		}
	}
	for _, rv := range rvals {
		_ = rv
	}
	for i := 0; i < res.Len(); i++ {
		e.assumeTyped(res.At(i).Type(), rvals[i].T, st)
	}
	cpost := &Ctx{e: e, st: st, old: pre, vars: vars}
	for _, en := range append(append([]Clause{}, fc.Ens...), fc.EnsAssumed...) {
		if e.fc != nil && len(e.fc.Uses) > 0 && len(en.Tags) > 0 {
			used := false
			for _, t := range en.Tags {
				if hasTag(e.fc.Uses, t) {
					used = true
				}
			}
			if !used {
				continue // the caller's proof does not rely on this clause
			}
		}
		func() {
			defer func() {
				if r := recover(); r != nil {
					if ee, isE := r.(evalError); isE && strings.HasPrefix(ee.msg, "unknown identifier") {
						return // the clause speaks about the callee's locals: not usable by callers
					}
					panic(r)
				}
			}()
			e.assume(cpost.evalBool(en.E))
		}()
	}
	switch res.Len() {
	case 0:
	case 1:
		e.vals[x] = rvals[0]
	default:
		e.vals[x] = Val{Tuple: rvals}
	}
}

func (e *Enc) builtin(x *ssa.Call, b *ssa.Builtin, st *State) {
	args := x.Call.Args
	switch b.Name() {
	case "len", "cap":
		v := e.term(args[0])
		switch v.Sort {
		case sSlice:
			e.setVal(x, Term{app("Slice_"+b.Name(), v.S), sInt})
		case sStr:
			e.setVal(x, Term{app("strlen", v.S), sInt})
		default:
			if mt, ok := args[0].Type().Underlying().(*types.Map); ok {
				e.setVal(x, e.mapLen(mt, v, st))
				return
			}
			panic(unsupported{"len of " + args[0].Type().String()})
		}
	case "append":
		e.appendOp(x, st)
	case "copy":
		e.copyOp(x, st)
	case "clear":
		e.clearOp(x, st)
		return
	case "close":
		// closing a channel has no effect on the modelled state (the ghost log records sends only)
		return
	default:
		panic(unsupported{"builtin " + b.Name()})
	}
}

// appendOp models append exactly: if the new length fits the capacity the elements are
// written in place into the argument's backing array (a frame-checked write), otherwise a
// fresh backing array is allocated, the old elements copied and the new ones added.
func (e *Enc) appendOp(x *ssa.Call, st *State) {
	args := x.Call.Args
	s := e.def("appdst", e.term(args[0])) // named: the term occurs in quantifier patterns below
	el := x.Type().Underlying().(*types.Slice).Elem()
	es := e.reg.sortOf(el)
	name := elemHeapName(el)
	srt := arrSort(arrSort(es))
	sl := Term{app("Slice_len", s.S), sInt}
	if isString(args[1].Type()) {
		panic(unsupported{"append of string bytes"})
	}
	t := e.def("apparg", e.term(args[1])) // named: the term occurs in quantifier patterns below
	tl := Term{app("Slice_len", t.S), sInt}
	h := st.heapGet(e, name, srt)
	sarr := Term{app("Slice_arr", s.S), sInt}
	soff := Term{app("Slice_off", s.S), sInt}
	scap := Term{app("Slice_cap", s.S), sInt}
	newLen := e.def("applen", Term{app("+", sl.S, tl.S), sInt})
	fits := e.def("appfits", tAnd(tNot(tEq(sarr, tInt(0))), Term{app("<=", newLen.S, scap.S), sBool}))
	oldArr := tSelect(h, sarr)
	srcArr := tSelect(h, Term{app("Slice_arr", t.S), sInt})
	// frame: an in-place append writes the argument's backing array
	if e.fc != nil {
		cond := tOr(tNot(fits), tEq(tl, tInt(0)), e.allowedWrite(name, sarr, nil))
		if cond.S != "true" {
			label := e.p.srcLine(x.Pos())
			e.oblige("frame", "append in place: "+label, e.fc.frameTags(), cond, x.Pos())
		}
	}
	// in-place contents
	inpl := e.havoc("appinplace", arrSort(es))
	qa := e.freshName("q_j")
	lo := Term{app("+", soff.S, sl.S), sInt}
	e.assume(Term{fmt.Sprintf("(forall ((%s Int)) (! (= (select %s %s) (ite (and (<= %s %s) (< %s (+ %s %s))) (select %s (sidx (Slice_off %s) (- %s %s))) (select %s %s))) :pattern ((select %s %s))))",
		qa, inpl.S, qa, lo.S, qa, qa, lo.S, tl.S, srcArr.S, t.S, qa, lo.S, oldArr.S, qa, inpl.S, qa), sBool})
	e.assume(tImp(tEq(tl, tInt(1)), tEq(inpl, tStore(oldArr, lo, tSelect(srcArr, Term{app("Slice_off", t.S), sInt})))))
	// fresh-array contents
	r := e.def("apparr", st.alloc)
	st.alloc = e.def("alloc", Term{app("+", st.alloc.S, "1"), sInt})
	na := e.havoc("appcontents", arrSort(es))
	nc := e.havoc("appcap", sInt)
	e.assume(tAnd(Term{app(">=", nc.S, newLen.S), sBool}, Term{app("<=", nc.S, "72057594037927936"), sBool}))
	q := e.freshName("q_i")
	e.assume(Term{fmt.Sprintf("(forall ((%s Int)) (! (=> (and (<= 0 %s) (< %s %s)) (= (select %s %s) (select %s (sidx (Slice_off %s) %s)))) :pattern ((select %s %s))))",
		q, q, q, sl.S, na.S, q, oldArr.S, s.S, q, na.S, q), sBool})
	q2 := e.freshName("q_i")
	e.assume(Term{fmt.Sprintf("(forall ((%s Int)) (! (=> (and (<= 0 %s) (< %s %s)) (= (select %s (+ %s %s)) (select %s (sidx (Slice_off %s) %s)))) :pattern ((select %s (sidx (Slice_off %s) %s)))))",
		q2, q2, q2, tl.S, na.S, sl.S, q2, srcArr.S, t.S, q2, srcArr.S, t.S, q2), sBool})
	e.assume(tImp(tEq(tl, tInt(1)), tEq(tSelect(na, sl), tSelect(srcArr, Term{app("Slice_off", t.S), sInt}))))
	// the same two facts as one definition by cases, triggered by any read of the new array
	q3 := e.freshName("q_i")
	e.assume(Term{fmt.Sprintf("(forall ((%s Int)) (! (=> (and (<= 0 %s) (< %s %s)) (= (select %s %s) (ite (< %s %s) (select %s (sidx (Slice_off %s) %s)) (select %s (sidx (Slice_off %s) (- %s %s)))))) :pattern ((select %s %s))))",
		q3, q3, q3, newLen.S, na.S, q3, q3, sl.S, oldArr.S, s.S, q3, srcArr.S, t.S, q3, sl.S, na.S, q3), sBool})
	st.heap[name] = e.def(name, tIte(fits, tStore(h, sarr, inpl), tStore(h, r, na)))
	e.setVal(x, tIte(fits, Term{app("mk_Slice", sarr.S, soff.S, newLen.S, scap.S), sSlice}, Term{app("mk_Slice", r.S, "0", newLen.S, nc.S), sSlice}))
}

func (e *Enc) copyOp(x *ssa.Call, st *State) {
	args := x.Call.Args
	dst := e.term(args[0])
	if isString(args[1].Type()) {
		panic(unsupported{"copy from string"})
	}
	src := e.term(args[1])
	el := args[0].Type().Underlying().(*types.Slice).Elem()
	es := e.reg.sortOf(el)
	name := elemHeapName(el)
	srt := arrSort(arrSort(es))
	h := st.heapGet(e, name, srt)
	dl := Term{app("Slice_len", dst.S), sInt}
	sl := Term{app("Slice_len", src.S), sInt}
	n := e.def("copyn", tIte(Term{app("<", dl.S, sl.S), sBool}, dl, sl))
	darr := Term{app("Slice_arr", dst.S), sInt}
	if e.fc != nil {
		cond := tOr(tEq(n, tInt(0)), e.allowedWrite(name, darr, nil))
		if cond.S != "true" {
			e.oblige("frame", e.p.srcLine(x.Pos()), e.fc.frameTags(), cond, x.Pos())
		}
	}
	na := e.havoc("copycontents", arrSort(es))
	oldD := tSelect(h, darr)
	srcA := tSelect(h, Term{app("Slice_arr", src.S), sInt})
	q := e.freshName("q_i")
	// copied range
	e.assume(Term{fmt.Sprintf("(forall ((%s Int)) (! (=> (and (<= 0 %s) (< %s %s)) (= (select %s (sidx (Slice_off %s) %s)) (select %s (sidx (Slice_off %s) %s)))) :pattern ((select %s (sidx (Slice_off %s) %s)))))",
		q, q, q, n.S, na.S, dst.S, q, srcA.S, src.S, q, na.S, dst.S, q), sBool})
	q2 := e.freshName("q_i")
	e.assume(Term{fmt.Sprintf("(forall ((%s Int)) (! (=> (or (< %s (Slice_off %s)) (>= %s (+ (Slice_off %s) %s))) (= (select %s %s) (select %s %s))) :pattern ((select %s %s))))",
		q2, q2, dst.S, q2, dst.S, n.S, na.S, q2, oldD.S, q2, na.S, q2), sBool})
	st.heap[name] = e.def(name, tStore(h, darr, na))
	e.setVal(x, n)
}

// ---------- not yet modelled ----------

func (e *Enc) invoke(x *ssa.Call, st *State) {
	cc := &x.Call
	recvT := cc.Value.Type()
	name := "iface:" + types.TypeString(recvT, func(p *types.Package) string { return "" }) + "." + cc.Method.Name()
	fc := e.p.cs.Funcs[name]
	if fc == nil {
		panic(unsupported{"interface call " + name + " without contract"})
	}
	args := []Val{e.val(cc.Value)}
	if args[0].Loc == nil {
		e.safety("nil", tNot(tEq(args[0].T, tInt(0))), x.Pos()) // a method call on a nil interface panics
	}
	for _, a := range cc.Args {
		args = append(args, e.val(a))
	}
	sig := cc.Method.Type().(*types.Signature)
	// parameters: receiver named "self", then the method's parameter names
	var params []*ssa.Parameter
	_ = params
	vars := []string{"self"}
	for i := 0; i < sig.Params().Len(); i++ {
		n := sig.Params().At(i).Name()
		if n == "" {
			n = fmt.Sprintf("arg%d", i)
		}
		vars = append(vars, n)
	}
	e.applyContractNamed(x, name, fc, vars, append([]types.Type{recvT}, tupleTypes(sig.Params())...), sig, args, st)
}

func tupleTypes(t *types.Tuple) []types.Type {
	var out []types.Type
	for i := 0; i < t.Len(); i++ {
		out = append(out, t.At(i).Type())
	}
	return out
}

// applyContractNamed is applyContract for callees without ssa.Parameters.
func (e *Enc) applyContractNamed(x ssa.Value, name string, fc *FuncC, pnames []string, ptypes []types.Type, sig *types.Signature, args []Val, st *State) {
	// build pseudo parameters
	var params []*ssa.Parameter
	_ = params
	vars := map[string]CVal{}
	for i, n := range pnames {
		if args[i].Loc != nil {
			panic(unsupported{"passing an interior pointer to " + name})
		}
		vars[n] = CVal{T: args[i].T, GT: ptypes[i]}
	}
	e.applyContractVars(x, name, fc, vars, sig, st)
}

// dynCall: a call through a function value. The program is closed: the callee is one of the package's
// functions whose value is taken somewhere with this signature. The call is encoded as a case split over
// these candidates, each through its own contract; that the value is one of them (and not nil) is an
// obligation.
func (e *Enc) dynCall(x *ssa.Call, st *State) {
	cc := &x.Call
	sig := cc.Signature()
	fv := e.term(cc.Value)
	cands := e.p.funcValueCandidates(sig)
	if len(cands) == 0 {
		panic(unsupported{"dynamic call through a function value with no known candidate"})
	}
	var args []Val
	for _, a := range cc.Args {
		args = append(args, e.val(a))
	}
	var isOne []Term
	for _, m := range cands {
		isOne = append(isOne, tEq(fv, e.funcValue(m)))
	}
	// closed world: a value of a function type is nil or one of the functions whose value is taken
	e.assume(tOr(append([]Term{tEq(fv, tInt(0))}, isOne...)...))
	e.oblige("nilfunc", e.p.srcLine(x.Pos()), e.panicTags, tNot(tEq(fv, tInt(0))), x.Pos())
	saveGuard := e.curGuard
	var states []*State
	var results []Val
	for i, m := range cands {
		name := funcName(m)
		fc := e.p.cs.Funcs[name]
		if fc == nil {
			panic(unsupported{"dynamic call: candidate " + name + " has no contract"})
		}
		e.curGuard = tAnd(saveGuard, isOne[i])
		s2 := st.clone()
		e.applyContract(x, name, fc, m.Params, m.Signature, args, s2)
		states = append(states, s2)
		results = append(results, e.vals[x])
	}
	e.curGuard = saveGuard
	merged := e.mergeStates(states, isOne)
	*st = *merged
	// the result: the candidate's result under its guard
	res := results[len(results)-1]
	for i := len(results) - 2; i >= 0; i-- {
		res = e.iteVal(isOne[i], results[i], res)
	}
	e.vals[x] = res
}

func (e *Enc) iteVal(g Term, a, b Val) Val {
	if a.Tuple != nil {
		out := Val{}
		for i := range a.Tuple {
			out.Tuple = append(out.Tuple, e.iteVal(g, a.Tuple[i], b.Tuple[i]))
		}
		return out
	}
	if a.Loc != nil || b.Loc != nil {
		panic(unsupported{"dynamic call returning an interior pointer"})
	}
	return Val{T: e.def("dynres", tIte(g, a.T, b.T))}
}

// funcValueCandidates: the package functions with this signature whose value is used other than by calling it.
func (p *Program) funcValueCandidates(sig *types.Signature) []*ssa.Function {
	p.fnValOnce.Do(func() {
		seen := map[*ssa.Function]bool{}
		for _, f := range p.allFuncs {
			for _, b := range f.Blocks {
				for _, in := range b.Instrs {
					var callee ssa.Value
					if c, ok := in.(ssa.CallInstruction); ok {
						callee = c.Common().Value
					}
					for _, op := range in.Operands(nil) {
						if op == nil || *op == nil {
							continue
						}
						if fn, ok := (*op).(*ssa.Function); ok && *op != callee && !seen[fn] {
							seen[fn] = true
							p.fnValues = append(p.fnValues, fn)
						}
					}
					if mc, ok := in.(*ssa.MakeClosure); ok {
						// a closure is a function value the closed-world enumeration does not contain
						if cf, ok := mc.Fn.(*ssa.Function); ok {
							p.closureSigs = append(p.closureSigs, cf.Signature)
						}
					}
				}
			}
		}
	})
	for _, cs := range p.closureSigs {
		if types.Identical(cs, sig) {
			panic(unsupported{"dynamic call: a closure of this function type exists, the candidates are not a closed world"})
		}
	}
	var out []*ssa.Function
	for _, f := range p.fnValues {
		if types.Identical(f.Signature, sig) {
			out = append(out, f)
		}
	}
	sort.Slice(out, func(i, j int) bool { return funcName(out[i]) < funcName(out[j]) })
	return out
}

func (e *Enc) otherInstr(in ssa.Instruction, st *State) {
	panic(unsupported{fmt.Sprintf("instruction %T not modelled", in)})
}

func (e *Enc) lookup(x *ssa.Lookup, st *State) {
	if isString(x.X.Type()) {
		s := e.term(x.X)
		i := e.term(x.Index)
		e.safety("index", tAnd(Term{app("<=", "0", i.S), sBool}, Term{app("<", i.S, app("strlen", s.S)), sBool}), x.Pos())
		e.usedUF["strat"] = true
		r := Term{app("strat", s.S, i.S), sInt}
		e.setVal(x, r)
		e.assume(e.reg.rangeFact(x.Type(), e.vals[x].T))
		return
	}
	e.mapLookup(x, st)
}

var purePackages = map[string]bool{"strings": true, "strconv": true, "unicode": true, "unicode/utf8": true, "math": true, "math/bits": true, "bytes": true, "slices": true}

// clearOp models the builtin clear: a slice's elements become zero values (a frame-checked write into its backing
// array), a map loses all its keys.
func (e *Enc) clearOp(x *ssa.Call, st *State) {
	arg := x.Call.Args[0]
	switch u := arg.Type().Underlying().(type) {
	case *types.Slice:
		sl := e.def("clrdst", e.term(arg))
		el := u.Elem()
		es := e.reg.sortOf(el)
		name := elemHeapName(el)
		srt := arrSort(arrSort(es))
		h := st.heapGet(e, name, srt)
		arr := Term{app("Slice_arr", sl.S), sInt}
		n := Term{app("Slice_len", sl.S), sInt}
		if e.fc != nil {
			cond := tOr(tEq(n, tInt(0)), e.allowedWrite(name, arr, nil))
			if cond.S != "true" {
				e.oblige("frame", "clear: "+e.p.srcLine(x.Pos()), e.fc.frameTags(), cond, x.Pos())
			}
		}
		old := tSelect(h, arr)
		na := e.havoc("cleared", arrSort(es))
		q := e.freshName("q_i")
		lo := Term{app("Slice_off", sl.S), sInt}
		e.assume(Term{fmt.Sprintf("(forall ((%s Int)) (! (= (select %s %s) (ite (and (<= %s %s) (< %s (+ %s %s))) %s (select %s %s))) :pattern ((select %s %s))))",
			q, na.S, q, lo.S, q, q, lo.S, n.S, e.reg.zero(el).S, old.S, q, na.S, q), sBool})
		st.heap[name] = e.def(name, tStore(h, arr, na))
	case *types.Map:
		m := e.term(arg)
		dName, _, kSort, _, dSort, _ := e.mapSorts(u)
		if e.fc != nil {
			cond := tOr(tEq(m, tInt(0)), e.allowedWrite(dName, m, nil))
			if cond.S != "true" {
				e.oblige("frame", "clear: "+e.p.srcLine(x.Pos()), e.fc.frameTags(), cond, x.Pos())
			}
		}
		hd := st.heapGet(e, dName, dSort)
		empty := Term{app("(as const "+arrSort2(kSort, sBool)+")", "false"), ""}
		st.heap[dName] = e.def(dName, tIte(tEq(m, tInt(0)), hd, tStore(hd, m, empty)))
	default:
		panic(unsupported{"clear of " + arg.Type().String()})
	}
}
