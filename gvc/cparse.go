package main

// Parser for the contract language (DESIGN.md section 3). Contracts live in
// comment-only Go files of /repo guarded by the build tag `verif`; every
// contract line starts with `//@`.

import (
	"fmt"
	"math/big"
	"os"
	"strconv"
	"strings"
	"unicode"
)

// ---------- expression AST ----------

type Expr interface{}

type (
	EIdent struct{ Name string }
	EInt   struct{ V *big.Int }
	EBool  struct{ V bool }
	EStr   struct{ V string }
	EBin   struct {
		Op   string
		L, R Expr
	}
	EUn struct {
		Op string
		X  Expr
	}
	ESel struct {
		X Expr
		F string
	}
	EIndex struct{ X, I Expr }
	ECall  struct {
		Fn   string
		Args []Expr
	}
	EQuant struct {
		Forall bool
		Vars   []string
		Sorts  []string // per variable: "" (Int) or a sort name (Str, Bool)
		Body   Expr
	}
	ELet struct {
		Name      string
		Val, Body Expr
	}
	// record update x{F: v}
	EUpd struct {
		X Expr
		F string
		V Expr
	}
	// array update a[i := v]
	EStore struct{ X, I, V Expr }
)

// ---------- contract items ----------

type Param struct {
	Name string
	Type string // textual Go-ish type: "int", "bool", "*reportSim", "Instruction", "[]Instruction", "Address"
}

type PureFn struct {
	Name   string
	Params []Param
	Body   Expr   // nil for an uninterpreted function without definition
	Result string // result type text (uf only; default int)
	Text   string
}

type Clause struct {
	Kind       string // requires ensures invariant decreases backedge iteration exit
	Tags       []string
	E          Expr
	Text       string
	HeaderOnly bool // exit clauses: only the exit taken from the loop header (the loop condition / first test)
}

type Target struct {
	Text    string
	Nothing bool
	Base    Expr   // object (pointer) expression or slice expression
	Field   string // field name; "*" = all fields; "" with Elems = slice elements
	Elems   bool   // base is a slice expression: all elements (or the single element Index)
	Index   Expr   // non-nil: the single element base[Index]
	Ghost   bool
	Chan    bool // "chan path": the ghost send log of the channel
	// quantified over elements: Base contains EIndex with index EIdent{"*"}
}

type SplitSpec struct {
	Alts   []Expr // further expressions known to have the same value
	E      Expr
	Text   string
	Lo, Hi int64
}

type LoopC struct {
	Ord   int
	Inv   []Clause
	Dec   []Clause
	Back  []Clause
	Iter  []Clause
	Exit  []Clause
	Ret   []Clause // must hold at every return statement inside the loop body
	Entry []Clause // asserted when the loop is entered (not an invariant)
	Bound int
}

type FuncC struct {
	Name      string
	Kind      string // func | extern | trusted
	Req       []Clause
	Ens       []Clause
	EnsAssumed []Clause // postconditions assumed at call sites but not checked against the body (trusted clauses)
	Mod       []Target
	HasMod    bool
	Dec       []Clause
	Splits    []SplitSpec
	Loops     map[int]*LoopC
	PanicTags []string // property tags for safety obligations of this function
	Arith     string   // "" (native div/mod) or "uf"
	Cut       *CutC    // optional cut point splitting the proof into two phases
	Specs     []SpecLet // named spec values over the entry state (opaque after a cut)
	Uses      []string  // if set: of the callees' tagged ensures only those with one of these tags are assumed
	Line      int
}

// CutC is a cut point inside a function body: the clauses are asserted when the
// statement on the given source line is reached (phase 1) and assumed, after
// havocking everything written so far, for the rest of the function (phase 2).
type CutC struct {
	Line    string
	Asserts []Clause
	Splits  []SplitSpec // splits of phase 2
}

type SpecLet struct {
	Name string
	E    Expr
}

type Lemma struct {
	Name string
	Tags []string
	E    Expr // one-line form: the closed formula to prove
	Text string
	// structured form
	Params  []Param
	Splits  []SplitSpec
	Assumes []Clause
	Shows   []Clause
}

type Contracts struct {
	UFs    map[string]*PureFn // uninterpreted functions with a definitional axiom (integer arguments and result)
	Pures  map[string]*PureFn
	Funcs  map[string]*FuncC
	Order  []string
	Lemmas []*Lemma
	Ghosts map[string]string // "reportSim.log" -> sort text
}

// ---------- lexer ----------

type ctok struct {
	kind string // id int str op eof
	val  string
}

func clex(s string) ([]ctok, error) {
	var out []ctok
	i := 0
	for i < len(s) {
		c := s[i]
		switch {
		case c == ' ' || c == '\t' || c == '\n' || c == '\r':
			i++
		case unicode.IsLetter(rune(c)) || c == '_' || c == '$':
			j := i
			for j < len(s) && (unicode.IsLetter(rune(s[j])) || unicode.IsDigit(rune(s[j])) || s[j] == '_' || s[j] == '$') {
				j++
			}
			out = append(out, ctok{"id", s[i:j]})
			i = j
		case unicode.IsDigit(rune(c)):
			j := i
			for j < len(s) && (unicode.IsDigit(rune(s[j])) || s[j] == '_') {
				j++
			}
			out = append(out, ctok{"int", strings.ReplaceAll(s[i:j], "_", "")})
			i = j
		case c == '"':
			j := i + 1
			for j < len(s) && s[j] != '"' {
				if s[j] == '\\' {
					j++
				}
				j++
			}
			if j >= len(s) {
				return nil, fmt.Errorf("unterminated string")
			}
			v, err := strconv.Unquote(s[i : j+1])
			if err != nil {
				return nil, err
			}
			out = append(out, ctok{"str", v})
			i = j + 1
		default:
			ops := []string{"<==>", "==>", ":=", "::", "==", "!=", "<=", ">=", "&&", "||", "..",
				"+", "-", "*", "/", "%", "<", ">", "!", "(", ")", "[", "]", "{", "}", ",", ".", ":", "="}
			matched := false
			for _, op := range ops {
				if strings.HasPrefix(s[i:], op) {
					out = append(out, ctok{"op", op})
					i += len(op)
					matched = true
					break
				}
			}
			if !matched {
				return nil, fmt.Errorf("unexpected character %q", c)
			}
		}
	}
	out = append(out, ctok{"eof", ""})
	return out, nil
}

type cparser struct {
	toks []ctok
	p    int
}

func (p *cparser) peek() ctok { return p.toks[p.p] }
func (p *cparser) next() ctok  { t := p.toks[p.p]; p.p++; return t }
func (p *cparser) isOp(v string) bool {
	t := p.peek()
	return t.kind == "op" && t.val == v
}
func (p *cparser) accept(v string) bool {
	if p.isOp(v) {
		p.p++
		return true
	}
	return false
}
func (p *cparser) expect(v string) {
	if !p.accept(v) {
		panic(fmt.Errorf("expected %q, got %q", v, p.peek().val))
	}
}

var binPrec = map[string]int{
	"<==>": 1, "==>": 2, "||": 3, "&&": 4,
	"==": 5, "!=": 5, "<": 5, "<=": 5, ">": 5, ">=": 5,
	"+": 6, "-": 6, "*": 7, "/": 7, "%": 7,
}

func (p *cparser) parseExpr(minPrec int) Expr {
	// quantifiers and let bind weakest and extend to the right
	t := p.peek()
	if t.kind == "id" && (t.val == "forall" || t.val == "exists") {
		p.next()
		var vars, sorts []string
		for {
			v := p.next()
			if v.kind != "id" {
				panic(fmt.Errorf("bound variable expected, got %q", v.val))
			}
			vars = append(vars, v.val)
			// optional sort: `k: Str` (default Int)
			srt := ""
			if p.peek().kind == "op" && p.peek().val == ":" {
				p.next()
				st := p.next()
				if st.kind != "id" {
					panic(fmt.Errorf("sort name expected after ':'"))
				}
				srt = st.val
			}
			sorts = append(sorts, srt)
			if !p.accept(",") {
				break
			}
		}
		p.expect("::")
		body := p.parseExpr(0)
		return &EQuant{Forall: t.val == "forall", Vars: vars, Sorts: sorts, Body: body}
	}
	if t.kind == "id" && t.val == "let" {
		p.next()
		name := p.next().val
		p.expect("=")
		val := p.parseExpr(0)
		in := p.next()
		if in.kind != "id" || in.val != "in" {
			panic(fmt.Errorf("expected 'in' in let, got %q", in.val))
		}
		body := p.parseExpr(0)
		return &ELet{Name: name, Val: val, Body: body}
	}
	lhs := p.parseUnary()
	for {
		t := p.peek()
		if t.kind != "op" {
			break
		}
		prec, ok := binPrec[t.val]
		if !ok || prec < minPrec {
			break
		}
		p.next()
		var rhs Expr
		if t.val == "==>" || t.val == "<==>" {
			rhs = p.parseExpr(prec) // right assoc
		} else {
			rhs = p.parseExpr(prec + 1)
		}
		lhs = &EBin{Op: t.val, L: lhs, R: rhs}
	}
	return lhs
}

func (p *cparser) parseUnary() Expr {
	if p.accept("!") {
		return &EUn{Op: "!", X: p.parseUnary()}
	}
	if p.accept("-") {
		return &EUn{Op: "-", X: p.parseUnary()}
	}
	return p.parsePostfix(p.parsePrimary())
}

func (p *cparser) parsePrimary() Expr {
	t := p.next()
	switch t.kind {
	case "int":
		v, ok := new(big.Int).SetString(t.val, 10)
		if !ok {
			panic(fmt.Errorf("bad integer %q", t.val))
		}
		return &EInt{V: v}
	case "str":
		return &EStr{V: t.val}
	case "id":
		switch t.val {
		case "true":
			return &EBool{V: true}
		case "false":
			return &EBool{V: false}
		case "forall", "exists", "let":
			p.p--
			return p.parseExpr(0)
		}
		if p.isOp("(") {
			p.next()
			var args []Expr
			if !p.isOp(")") {
				for {
					args = append(args, p.parseExpr(0))
					if !p.accept(",") {
						break
					}
				}
			}
			p.expect(")")
			return &ECall{Fn: t.val, Args: args}
		}
		return &EIdent{Name: t.val}
	case "op":
		if t.val == "(" {
			e := p.parseExpr(0)
			p.expect(")")
			return e
		}
		if t.val == "*" { // wildcard index inside modifies targets
			return &EIdent{Name: "*"}
		}
	}
	panic(fmt.Errorf("unexpected token %q", t.val))
}

func (p *cparser) parsePostfix(e Expr) Expr {
	for {
		switch {
		case p.accept("."):
			t := p.next()
			if t.kind == "op" && t.val == "*" {
				e = &ESel{X: e, F: "*"}
			} else if t.kind == "id" || t.kind == "int" {
				e = &ESel{X: e, F: t.val}
			} else {
				panic(fmt.Errorf("field name expected after '.', got %q", t.val))
			}
		case p.accept("["):
			i := p.parseExpr(0)
			if p.accept(":=") {
				v := p.parseExpr(0)
				p.expect("]")
				e = &EStore{X: e, I: i, V: v}
			} else {
				p.expect("]")
				e = &EIndex{X: e, I: i}
			}
		case p.isOp("{"):
			// record update x{F: v}
			p.next()
			f := p.next()
			p.expect(":")
			v := p.parseExpr(0)
			p.expect("}")
			e = &EUpd{X: e, F: f.val, V: v}
		default:
			return e
		}
	}
}

func parseExprString(s string) (e Expr, err error) {
	defer func() {
		if r := recover(); r != nil {
			if er, ok := r.(error); ok {
				err = fmt.Errorf("%v in %q", er, s)
				return
			}
			panic(r)
		}
	}()
	toks, err := clex(s)
	if err != nil {
		return nil, fmt.Errorf("%v in %q", err, s)
	}
	p := &cparser{toks: toks}
	e = p.parseExpr(0)
	if p.peek().kind != "eof" {
		return nil, fmt.Errorf("trailing input %q in %q", p.peek().val, s)
	}
	return e, nil
}

// ---------- file-level parser ----------

var itemKeywords = map[string]bool{"uf": true, "pure": true, "func": true, "extern": true, "trusted": true, "lemma": true, "ghost": true}
var clauseKeywords = map[string]bool{"returns": true, "assumes": true, "entry": true, "param": true, "assume": true, "show": true, "exit": true, "uses": true, "spec": true, "cut": true, "assert": true, "arith": true, "requires": true, "ensures": true, "modifies": true, "decreases": true, "split": true,
	"loop": true, "invariant": true, "backedge": true, "iteration": true, "bounded": true, "panics": true}

// readContractLines returns the logical lines (keyword + text) of all //@ lines
// of a file; a //@ line not starting with a keyword continues the previous one.
type cline struct {
	kw   string
	text string
	line int
}

func readContractLines(path string) ([]cline, error) {
	data, err := os.ReadFile(path)
	if err != nil {
		return nil, err
	}
	var out []cline
	for n, raw := range strings.Split(string(data), "\n") {
		l := strings.TrimSpace(raw)
		if !strings.HasPrefix(l, "//@") {
			continue
		}
		l = strings.TrimSpace(l[3:])
		// strip trailing comment introduced by " //"
		if k := strings.Index(l, " //"); k >= 0 {
			l = strings.TrimSpace(l[:k])
		}
		if l == "" {
			continue
		}
		first := l
		if k := strings.IndexAny(l, " \t"); k >= 0 {
			first = l[:k]
		}
		if itemKeywords[first] || clauseKeywords[first] {
			out = append(out, cline{kw: first, text: strings.TrimSpace(l[len(first):]), line: n + 1})
		} else {
			if len(out) == 0 {
				return nil, fmt.Errorf("%s:%d: continuation line without a clause", path, n+1)
			}
			out[len(out)-1].text += " " + l
		}
	}
	return out, nil
}

func parseTags(s string) ([]string, string) {
	var tags []string
	s = strings.TrimSpace(s)
	for strings.HasPrefix(s, "[") {
		k := strings.Index(s, "]")
		if k < 0 {
			break
		}
		tag := s[1:k]
		ok := tag != ""
		for _, c := range tag {
			if !(unicode.IsLetter(c) || unicode.IsDigit(c)) {
				ok = false
			}
		}
		if !ok {
			break
		}
		tags = append(tags, tag)
		s = strings.TrimSpace(s[k+1:])
	}
	return tags, s
}

func parseTarget(s string) (Target, error) {
	s = strings.TrimSpace(s)
	t := Target{Text: s}
	if s == "nothing" {
		t.Nothing = true
		return t, nil
	}
	if strings.HasPrefix(s, "ghost ") {
		t.Ghost = true
		s = strings.TrimSpace(s[6:])
	}
	if strings.HasPrefix(s, "chan ") {
		t.Chan = true
		e, err := parseExprString(strings.TrimSpace(s[5:]))
		if err != nil {
			return t, err
		}
		t.Base = e
		return t, nil
	}
	e, err := parseExprString(s)
	if err != nil {
		return t, err
	}
	switch x := e.(type) {
	case *ESel:
		t.Base = x.X
		t.Field = x.F
	case *EIndex:
		t.Base = x.X
		t.Elems = true
		if id, ok := x.I.(*EIdent); !ok || id.Name != "*" {
			t.Index = x.I
		}
	default:
		return t, fmt.Errorf("modifies target %q: expected path.f, path.* or path[*]", s)
	}
	return t, nil
}

func splitTopLevel(s string, sep byte) []string {
	var out []string
	depth := 0
	last := 0
	for i := 0; i < len(s); i++ {
		switch s[i] {
		case '(', '[', '{':
			depth++
		case ')', ']', '}':
			depth--
		default:
			if s[i] == sep && depth == 0 {
				out = append(out, s[last:i])
				last = i + 1
			}
		}
	}
	out = append(out, s[last:])
	return out
}

func ParseContracts(paths []string) (*Contracts, error) {
	cs := &Contracts{UFs: map[string]*PureFn{}, Pures: map[string]*PureFn{}, Funcs: map[string]*FuncC{}, Ghosts: map[string]string{}}
	for _, path := range paths {
		lines, err := readContractLines(path)
		if err != nil {
			return nil, err
		}
		var cur *FuncC
		var curLoop *LoopC
		var curLemma *Lemma
		for _, l := range lines {
			fail := func(err error) error { return fmt.Errorf("%s:%d: %v", path, l.line, err) }
			switch l.kw {
			case "pure", "uf":
				cur, curLoop, curLemma = nil, nil, nil
				if l.kw == "uf" && !strings.Contains(l.text[matchParen(l.text)+1:], "=") {
					// uninterpreted function without a definition: uf name(p T, ...) ResultType
					rp := matchParen(l.text)
					lp := strings.Index(l.text, "(")
					if lp < 0 || rp < lp {
						return nil, fail(fmt.Errorf("uf: missing parameter list"))
					}
					name := strings.TrimSpace(l.text[:lp])
					var params []Param
					if ps := strings.TrimSpace(l.text[lp+1 : rp]); ps != "" {
						for _, p := range strings.Split(ps, ",") {
							f := strings.Fields(p)
							if len(f) == 1 {
								params = append(params, Param{Name: f[0], Type: "int"})
							} else {
								params = append(params, Param{Name: f[0], Type: strings.Join(f[1:], " ")})
							}
						}
					}
					res := strings.TrimSpace(l.text[rp+1:])
					if res == "" {
						res = "int"
					}
					cs.UFs[name] = &PureFn{Name: name, Params: params, Result: res, Text: l.text}
					continue
				}
				eq := strings.Index(l.text, "=")
				// find the '=' that follows the closing paren of the parameter list
				rp := strings.Index(l.text, ")")
				if rp < 0 {
					return nil, fail(fmt.Errorf("pure: missing parameter list"))
				}
				eq = rp + strings.Index(l.text[rp:], "=")
				if eq < rp {
					return nil, fail(fmt.Errorf("pure: missing '='"))
				}
				head := l.text[:rp]
				lp := strings.Index(head, "(")
				name := strings.TrimSpace(head[:lp])
				var params []Param
				ps := strings.TrimSpace(head[lp+1:])
				if ps != "" {
					for _, p := range strings.Split(ps, ",") {
						f := strings.Fields(p)
						if len(f) == 1 {
							params = append(params, Param{Name: f[0], Type: "int"})
						} else if len(f) == 2 {
							params = append(params, Param{Name: f[0], Type: f[1]})
						} else {
							return nil, fail(fmt.Errorf("pure: bad parameter %q", p))
						}
					}
				}
				body, err := parseExprString(l.text[eq+1:])
				if err != nil {
					return nil, fail(err)
				}
				if _, dup := cs.Pures[name]; dup {
					return nil, fail(fmt.Errorf("pure %s redefined", name))
				}
				if l.kw == "uf" {
					cs.UFs[name] = &PureFn{Name: name, Params: params, Body: body, Result: strings.TrimSpace(l.text[rp+1 : eq]), Text: l.text}
				} else {
					cs.Pures[name] = &PureFn{Name: name, Params: params, Body: body, Text: l.text}
				}
			case "ghost":
				f := strings.Fields(l.text)
				if len(f) < 2 {
					return nil, fail(fmt.Errorf("ghost: expected 'Type.field sort'"))
				}
				cs.Ghosts[f[0]] = strings.Join(f[1:], " ")
			case "lemma":
				cur, curLoop = nil, nil
				k := strings.Index(l.text, ":")
				if k < 0 {
					// structured lemma: param / split / assume / show lines follow
					head := strings.Fields(l.text)
					if len(head) == 0 {
						return nil, fail(fmt.Errorf("lemma: missing name"))
					}
					var tags []string
					for _, x := range head[1:] {
						tg, _ := parseTags(x)
						tags = append(tags, tg...)
					}
					curLemma = &Lemma{Name: head[0], Tags: tags}
					cs.Lemmas = append(cs.Lemmas, curLemma)
					continue
				}
				curLemma = nil
				head := strings.Fields(l.text[:k])
				if len(head) == 0 {
					return nil, fail(fmt.Errorf("lemma: missing name"))
				}
				var tags []string
				for _, x := range head[1:] {
					tg, _ := parseTags(x)
					tags = append(tags, tg...)
				}
				e, err := parseExprString(l.text[k+1:])
				if err != nil {
					return nil, fail(err)
				}
				cs.Lemmas = append(cs.Lemmas, &Lemma{Name: head[0], Tags: tags, E: e, Text: strings.TrimSpace(l.text[k+1:])})
			case "func", "extern", "trusted":
				curLemma = nil
				name := strings.TrimSpace(l.text)
				if _, dup := cs.Funcs[name]; dup {
					return nil, fail(fmt.Errorf("contract for %s given twice", name))
				}
				cur = &FuncC{Name: name, Kind: l.kw, Loops: map[int]*LoopC{}, Line: l.line}
				curLoop = nil
				cs.Funcs[name] = cur
				cs.Order = append(cs.Order, name)
			default:
				if curLemma != nil && cur == nil {
					switch l.kw {
					case "param":
						f := strings.Fields(l.text)
						if len(f) < 2 {
							return nil, fail(fmt.Errorf("param: expected 'name type'"))
						}
						curLemma.Params = append(curLemma.Params, Param{Name: f[0], Type: strings.Join(f[1:], " ")})
					case "split":
						k := strings.LastIndex(l.text, " in ")
						if k < 0 {
							return nil, fail(fmt.Errorf("split: expected '<name> in lo..hi'"))
						}
						e, err := parseExprString(l.text[:k])
						if err != nil {
							return nil, fail(err)
						}
						r := strings.Split(strings.TrimSpace(l.text[k+4:]), "..")
						lo, e1 := strconv.ParseInt(strings.TrimSpace(r[0]), 10, 64)
						hi, e2 := strconv.ParseInt(strings.TrimSpace(r[len(r)-1]), 10, 64)
						if len(r) != 2 || e1 != nil || e2 != nil {
							return nil, fail(fmt.Errorf("split: bad range"))
						}
						curLemma.Splits = append(curLemma.Splits, SplitSpec{E: e, Text: strings.TrimSpace(l.text[:k]), Lo: lo, Hi: hi})
					case "assume", "show":
						tags, rest := parseTags(l.text)
						e, err := parseExprString(rest)
						if err != nil {
							return nil, fail(err)
						}
						c := Clause{Kind: l.kw, Tags: tags, E: e, Text: rest}
						if l.kw == "assume" {
							curLemma.Assumes = append(curLemma.Assumes, c)
						} else {
							curLemma.Shows = append(curLemma.Shows, c)
						}
					default:
						return nil, fail(fmt.Errorf("clause %q inside a lemma", l.kw))
					}
					continue
				}
				if cur == nil {
					return nil, fail(fmt.Errorf("clause %q outside a func item", l.kw))
				}
				switch l.kw {
				case "loop":
					n, err := strconv.Atoi(strings.TrimSpace(l.text))
					if err != nil {
						return nil, fail(fmt.Errorf("loop: ordinal expected"))
					}
					curLoop = &LoopC{Ord: n}
					cur.Loops[n] = curLoop
				case "spec":
					k := strings.Index(l.text, "=")
					if k < 0 {
						return nil, fail(fmt.Errorf("spec: expected 'name = expr'"))
					}
					e, err := parseExprString(l.text[k+1:])
					if err != nil {
						return nil, fail(err)
					}
					cur.Specs = append(cur.Specs, SpecLet{Name: strings.TrimSpace(l.text[:k]), E: e})
				case "arith":
					cur.Arith = strings.TrimSpace(l.text)
				case "uses":
					tags, _ := parseTags(l.text)
					cur.Uses = append(cur.Uses, tags...)
				case "cut":
					txt, err := strconv.Unquote(strings.TrimSpace(l.text))
					if err != nil {
						return nil, fail(fmt.Errorf("cut: quoted source line expected"))
					}
					cur.Cut = &CutC{Line: strings.Join(strings.Fields(txt), " ")}
					curLoop = nil
				case "assert":
					if cur.Cut == nil {
						return nil, fail(fmt.Errorf("assert outside cut"))
					}
					tags, rest := parseTags(l.text)
					e, err := parseExprString(rest)
					if err != nil {
						return nil, fail(err)
					}
					cur.Cut.Asserts = append(cur.Cut.Asserts, Clause{Kind: "assert", Tags: tags, E: e, Text: rest})
				case "panics":
					tags, _ := parseTags(l.text)
					cur.PanicTags = append(cur.PanicTags, tags...)
				case "modifies":
					cur.HasMod = true
					for _, part := range splitTopLevel(l.text, ',') {
						t, err := parseTarget(part)
						if err != nil {
							return nil, fail(err)
						}
						if !t.Nothing {
							cur.Mod = append(cur.Mod, t)
						}
					}
				case "split":
					// split <expr> in lo..hi
					k := strings.LastIndex(l.text, " in ")
					if k < 0 {
						return nil, fail(fmt.Errorf("split: expected '<expr> in lo..hi'"))
					}
					alts := strings.Split(l.text[:k], " | ")
					e, err := parseExprString(alts[0])
					if err != nil {
						return nil, fail(err)
					}
					var altEs []Expr
					for _, a := range alts[1:] {
						ae, err := parseExprString(a)
						if err != nil {
							return nil, fail(err)
						}
						altEs = append(altEs, ae)
					}
					r := strings.Split(strings.TrimSpace(l.text[k+4:]), "..")
					if len(r) != 2 {
						return nil, fail(fmt.Errorf("split: bad range"))
					}
					lo, e1 := strconv.ParseInt(strings.TrimSpace(r[0]), 10, 64)
					hi, e2 := strconv.ParseInt(strings.TrimSpace(r[1]), 10, 64)
					if e1 != nil || e2 != nil {
						return nil, fail(fmt.Errorf("split: bad range"))
					}
					sp := SplitSpec{E: e, Alts: altEs, Text: strings.TrimSpace(alts[0]), Lo: lo, Hi: hi}
					if cur.Cut != nil {
						cur.Cut.Splits = append(cur.Cut.Splits, sp)
					} else {
						cur.Splits = append(cur.Splits, sp)
					}
				case "bounded":
					if curLoop == nil {
						return nil, fail(fmt.Errorf("bounded outside loop"))
					}
					n, err := strconv.Atoi(strings.TrimSpace(l.text))
					if err != nil {
						return nil, fail(err)
					}
					curLoop.Bound = n
				default:
					txt := l.text
					headerOnly := false
					if l.kw == "exit" && strings.HasPrefix(strings.TrimSpace(txt), "header ") {
						headerOnly = true
						txt = strings.TrimSpace(txt)[7:]
					}
					tags, rest := parseTags(txt)
					e, err := parseExprString(rest)
					if err != nil {
						return nil, fail(err)
					}
					c := Clause{Kind: l.kw, Tags: tags, E: e, Text: rest, HeaderOnly: headerOnly}
					switch l.kw {
					case "requires":
						cur.Req = append(cur.Req, c)
						curLoop = nil
					case "ensures":
						cur.Ens = append(cur.Ens, c)
						curLoop = nil
					case "assumes":
						cur.EnsAssumed = append(cur.EnsAssumed, c)
						curLoop = nil
					case "decreases":
						if curLoop != nil {
							curLoop.Dec = append(curLoop.Dec, c)
						} else {
							cur.Dec = append(cur.Dec, c)
						}
					case "invariant", "backedge", "iteration", "exit", "entry", "returns":
						if curLoop == nil {
							return nil, fail(fmt.Errorf("%s outside loop", l.kw))
						}
						switch l.kw {
						case "invariant":
							curLoop.Inv = append(curLoop.Inv, c)
						case "backedge":
							curLoop.Back = append(curLoop.Back, c)
						case "iteration":
							curLoop.Iter = append(curLoop.Iter, c)
						case "exit":
							curLoop.Exit = append(curLoop.Exit, c)
						case "returns":
							curLoop.Ret = append(curLoop.Ret, c)
						case "entry":
							curLoop.Entry = append(curLoop.Entry, c)
						}
					}
				}
			}
		}
	}
	return cs, nil
}

// matchParen returns the index of the parenthesis closing the first "(" of s (or -1).
func matchParen(s string) int {
	d := 0
	for i := 0; i < len(s); i++ {
		switch s[i] {
		case '(':
			d++
		case ')':
			d--
			if d == 0 {
				return i
			}
		}
	}
	return -1
}
