package main

import (
	"fmt"
	"go/token"
	"go/types"
	"strings"

	"golang.org/x/tools/go/ssa"
)

func (e *Enc) setVal(v ssa.Value, t Term) {
	e.vals[v] = Val{T: e.def("v_"+v.Name(), t)}
}

func (e *Enc) instr(in ssa.Instruction, st *State) {
	switch x := in.(type) {
	case *ssa.DebugRef:
		return
	case *ssa.Alloc:
		e.alloc(x, st)
	case *ssa.FieldAddr:
		bv := e.val(x.X)
		pt := x.X.Type().Underlying().(*types.Pointer).Elem()
		si := e.reg.structOf(pt)
		if bv.Loc != nil {
			e.vals[x] = Val{Loc: bv.Loc.extend(pathStep{field: x.Field, si: si})}
			return
		}
		e.safety("nil", tNot(tEq(bv.T, tInt(0))), x.Pos())
		e.vals[x] = Val{Loc: &Loc{kind: 1, heapName: fieldHeapName(si, x.Field), heapSort: arrSort(si.fields[x.Field].sort), ref: bv.T, typ: si.fields[x.Field].typ}}
	case *ssa.IndexAddr:
		idx := e.term(x.Index)
		switch xt := x.X.Type().Underlying().(type) {
		case *types.Slice:
			sv := e.term(x.X)
			ln := Term{app("Slice_len", sv.S), sInt}
			e.safety("index", tAnd(Term{app("<=", "0", idx.S), sBool}, Term{app("<", idx.S, ln.S), sBool}), x.Pos())
			es := e.reg.sortOf(xt.Elem())
			e.vals[x] = Val{Loc: &Loc{kind: 2, heapName: elemHeapName(xt.Elem()), heapSort: arrSort(arrSort(es)),
				ref: e.def("arr", Term{app("Slice_arr", sv.S), sInt}), idx: e.def("idx", sidx(sv, idx)), typ: xt.Elem()}}
		case *types.Pointer:
			at := xt.Elem().Underlying().(*types.Array)
			bv := e.val(x.X)
			e.safety("index", tAnd(Term{app("<=", "0", idx.S), sBool}, Term{app("<", idx.S, fmt.Sprint(at.Len())), sBool}), x.Pos())
			if bv.Loc != nil {
				e.vals[x] = Val{Loc: bv.Loc.extend(pathStep{field: -1, idx: idx})}
				return
			}
			es := e.reg.sortOf(at.Elem())
			e.vals[x] = Val{Loc: &Loc{kind: 2, heapName: elemHeapName(at.Elem()), heapSort: arrSort(arrSort(es)), ref: bv.T, idx: idx, typ: at.Elem()}}
		default:
			panic(unsupported{"IndexAddr on " + x.X.Type().String()})
		}
	case *ssa.UnOp:
		e.unop(x, st)
	case *ssa.BinOp:
		e.binop(x)
	case *ssa.Store:
		av := e.val(x.Addr)
		if av.Loc == nil {
			panic(unsupported{"store through computed pointer " + x.Addr.Name()})
		}
		vv := e.val(x.Val)
		if vv.Loc != nil {
			panic(unsupported{"storing a pointer-to-interior value " + x.Val.Name()})
		}
		e.frameCheck(av.Loc, x.Pos(), "store")
		e.write(av.Loc, st, vv.T)
	case *ssa.Field:
		si := e.reg.structOf(x.X.Type())
		e.setVal(x, si.get(e.term(x.X), x.Field))
	case *ssa.Phi:
		return
	case *ssa.Convert:
		e.convert(x)
	case *ssa.ChangeType:
		e.vals[x] = e.val(x.X)
	case *ssa.ChangeInterface:
		e.vals[x] = e.val(x.X)
	case *ssa.MakeInterface:
		v := e.val(x.X)
		if v.Loc == nil && v.T.Sort == sInt {
			if _, isPtr := x.X.Type().Underlying().(*types.Pointer); isPtr {
				// an interface holding a nil pointer is not the nil interface: it is the value -1 ("typed nil"),
				// which compares unequal to nil and to every reference
				if v.T.S == "0" {
					e.vals[x] = Val{T: tInt(-1)}
				} else {
					e.setVal(x, tIte(tEq(v.T, tInt(0)), tInt(-1), v.T))
				}
				return
			}
		}
		// boxed non-pointer value: box.T(v), an uninterpreted non-nil interface value
		if v.Loc == nil {
			t := e.boxTerm(typeKey(x.X.Type()), v.T)
			e.setVal(x, t)
			e.assume(Term{app(">", e.vals[x].T.S, "0"), sBool})
			return
		}
		t := e.havoc("iface", sInt)
		e.assume(Term{app(">", t.S, "0"), sBool})
		e.vals[x] = Val{T: t}
	case *ssa.Extract:
		tv := e.val(x.Tuple)
		if x.Index >= len(tv.Tuple) {
			panic(unsupported{"extract from non-tuple"})
		}
		e.vals[x] = tv.Tuple[x.Index]
	case *ssa.Slice:
		e.sliceOp(x, st)
	case *ssa.MakeSlice:
		ln := e.term(x.Len)
		cp := e.term(x.Cap)
		e.safety("makeslice", tAnd(Term{app("<=", "0", ln.S), sBool}, Term{app("<=", ln.S, cp.S), sBool}), x.Pos())
		el := x.Type().Underlying().(*types.Slice).Elem()
		r := e.freshArray(st, el, e.reg.zero(el), true)
		e.setVal(x, Term{app("mk_Slice", r.S, "0", ln.S, cp.S), sSlice})
	case *ssa.Call:
		e.call(x, st)
	case *ssa.If:
		c := e.term(x.Cond)
		b := x.Block()
		if g := tAnd(e.curGuard, c); g.S != "false" {
			e.edgeGuard[e.edgeKey(b, b.Succs[0])] = e.def(fmt.Sprintf("e_%d_%d", b.Index, b.Succs[0].Index), g)
		}
		if g := tAnd(e.curGuard, tNot(c)); g.S != "false" {
			e.edgeGuard[e.edgeKey(b, b.Succs[1])] = e.def(fmt.Sprintf("e_%d_%d", b.Index, b.Succs[1].Index), g)
		}
		e.backEdges(b, st)
	case *ssa.Jump:
		b := x.Block()
		e.edgeGuard[e.edgeKey(b, b.Succs[0])] = e.curGuard
		e.backEdges(b, st)
	case *ssa.Return:
		e.ret(x, st)
	case *ssa.Panic:
		e.safety("panic", tFalse, x.Pos())
	case *ssa.RunDefers:
		return
	case *ssa.Lookup:
		e.lookup(x, st)
	case *ssa.MapUpdate:
		e.mapUpdate(x, st)
	case *ssa.MakeMap:
		e.makeMap(x, st)
	case *ssa.Index:
		xv := e.term(x.X)
		i := e.term(x.Index)
		if isString(x.X.Type()) {
			e.safety("index", tAnd(tCmp("<=", tInt(0), i), Term{app("<", i.S, app("strlen", xv.S)), sBool}), x.Pos())
			e.usedUF["strat"] = true
			e.setVal(x, Term{app("strat", xv.S, i.S), sInt})
			e.assume(e.reg.rangeFact(x.Type(), e.vals[x].T))
			return
		}
		if at, ok := x.X.Type().Underlying().(*types.Array); ok {
			e.safety("index", tAnd(tCmp("<=", tInt(0), i), tCmp("<", i, tInt(at.Len()))), x.Pos())
			e.setVal(x, tSelect(xv, i))
			return
		}
		panic(unsupported{"Index on " + x.X.Type().String()})
	case *ssa.Send:
		// channel operations are not modelled (DESIGN 2.2): for panic freedom of the sender a send is a
		// skip apart from the nil-channel / closed-channel cases, which are stated as an assumption
		ch := e.term(x.Chan)
		v := e.term(x.X)
		e.usedSend = true
		// ghost log of the channel: number of values sent and the last value sent
		et := x.Chan.Type().Underlying().(*types.Chan).Elem()
		nName, lName, lSort := chanGhost(e, et)
		if e.fc != nil {
			if cond := e.allowedWrite(nName, ch, nil); cond.S != "true" {
				e.oblige("frame", "send: "+e.p.srcLine(x.Pos()), e.fc.frameTags(), cond, x.Pos())
			}
		}
		hn := st.heapGet(e, nName, arrSort(sInt))
		hl := st.heapGet(e, lName, arrSort(lSort))
		st.heap[nName] = e.def(nName, tStore(hn, ch, Term{app("+", tSelect(hn, ch).S, "1"), sInt}))
		st.heap[lName] = e.def(lName, tStore(hl, ch, tStore(tSelect(hl, ch), tSelect(hn, ch), v)))
	case *ssa.Range:
		// range over a map: the iterator is the map itself; each Next yields some key the map holds (in no
		// particular order). Termination of such a loop is Go's (a finite map), not an obligation here.
		if _, isMap := x.X.Type().Underlying().(*types.Map); !isMap {
			panic(unsupported{"range over " + x.X.Type().String()})
		}
		e.vals[x] = Val{T: e.term(x.X)}
		e.rangeMaps[x] = x.X.Type().Underlying().(*types.Map)
	case *ssa.Next:
		rg, ok := x.Iter.(*ssa.Range)
		mt := e.rangeMaps[rg]
		if !ok || mt == nil || x.IsString {
			panic(unsupported{"next of a non-map iterator"})
		}
		m := e.term(rg.X)
		okv := e.havoc("rng_ok", sBool)
		k := e.havoc("rng_key", e.reg.sortOf(mt.Key()))
		e.assumeTyped(mt.Key(), k, st)
		has := e.mapHas(mt, m, k, st)
		e.assume(tImp(okv, has))
		v := e.def("rng_val", e.mapGet(mt, m, k, st))
		e.assumeTyped(mt.Elem(), v, st)
		e.vals[x] = Val{Tuple: []Val{{T: okv}, {T: k}, {T: v}}}
	case *ssa.TypeAssert, *ssa.MakeClosure, *ssa.MakeChan, *ssa.Go, *ssa.Defer, *ssa.Select:
		e.otherInstr(in, st)
	default:
		panic(unsupported{fmt.Sprintf("instruction %T", in)})
	}
}

func (e *Enc) freshArray(st *State, el types.Type, fill Term, setFill bool) Term {
	r := e.def("newarr", st.alloc)
	st.alloc = e.def("alloc", Term{app("+", st.alloc.S, "1"), sInt})
	name := elemHeapName(el)
	es := e.reg.sortOf(el)
	srt := arrSort(arrSort(es))
	h := st.heapGet(e, name, srt)
	if setFill {
		st.heap[name] = e.def(name, tStore(h, r, e.constArray(es, fill)))
	}
	return r
}

func (e *Enc) alloc(x *ssa.Alloc, st *State) {
	el := x.Type().(*types.Pointer).Elem()
	if !x.Heap {
		switch el.Underlying().(type) {
		case *types.Array:
			// treat like a heap array so that it can be sliced
		default:
			st.locals[x] = e.reg.zero(el)
			e.vals[x] = Val{Loc: &Loc{kind: 0, alloc: x, typ: el}}
			return
		}
	}
	switch u := el.Underlying().(type) {
	case *types.Struct:
		r := e.def("new_"+x.Comment, st.alloc)
		st.alloc = e.def("alloc", Term{app("+", st.alloc.S, "1"), sInt})
		si := e.reg.structOf(el)
		for k, f := range si.fields {
			name := fieldHeapName(si, k)
			h := st.heapGet(e, name, arrSort(f.sort))
			st.heap[name] = e.def(name, tStore(h, r, e.reg.zero(f.typ)))
		}
		e.vals[x] = Val{T: r}
	case *types.Array:
		r := e.freshArray(st, u.Elem(), e.reg.zero(u.Elem()), true)
		e.vals[x] = Val{T: r}
	default:
		// escaping scalar cell: model as a local cell if it is only used by loads/stores here
		for _, ref := range *x.Referrers() {
			switch ref.(type) {
			case *ssa.Store, *ssa.UnOp, *ssa.DebugRef:
			default:
				panic(unsupported{fmt.Sprintf("escaping cell %s used by %T", x.Name(), ref)})
			}
		}
		st.locals[x] = e.reg.zero(el)
		e.vals[x] = Val{Loc: &Loc{kind: 0, alloc: x, typ: el}}
	}
}

func (e *Enc) unop(x *ssa.UnOp, st *State) {
	switch x.Op {
	case token.MUL:
		av := e.val(x.X)
		if av.Loc == nil {
			// load through a first-class pointer to a struct: whole-struct load
			pt := x.X.Type().Underlying().(*types.Pointer).Elem()
			if _, ok := pt.Underlying().(*types.Struct); ok {
				e.safety("nil", tNot(tEq(av.T, tInt(0))), x.Pos())
				si := e.reg.structOf(pt)
				args := make([]string, len(si.fields))
				for k, f := range si.fields {
					args[k] = tSelect(st.heapGet(e, fieldHeapName(si, k), arrSort(f.sort)), av.T).S
				}
				t := Term{si.ctor(), si.name}
				if len(args) > 0 {
					t = Term{app(si.ctor(), args...), si.name}
				}
				e.setVal(x, t)
				e.assumeTyped(x.Type(), e.vals[x].T, st)
				return
			}
			panic(unsupported{"load through computed pointer " + x.X.Name()})
		}
		t := e.read(av.Loc, st)
		e.setVal(x, t)
		if av.Loc.kind != 0 {
			e.assumeTyped(x.Type(), e.vals[x].T, st)
		}
	case token.NOT:
		e.setVal(x, tNot(e.term(x.X)))
	case token.SUB:
		e.setVal(x, e.wrap(x.Type(), Term{app("-", "0", e.term(x.X).S), sInt}))
	case token.ARROW:
		e.otherInstr(x, st)
	default:
		t := e.havoc("unop", e.reg.sortOf(x.Type()))
		e.assumeTyped(x.Type(), t, st)
		e.vals[x] = Val{T: t}
	}
}

func (e *Enc) binop(x *ssa.BinOp) {
	a, b := e.term(x.X), e.term(x.Y)
	t := x.X.Type()
	cmp := func(op string) { e.setVal(x, tCmp(op, a, b)) }
	switch x.Op {
	case token.EQL:
		if a.Sort != b.Sort {
			panic(unsupported{"comparison of different sorts"})
		}
		if a.Sort == sSlice {
			// only comparison with nil is legal in Go
			e.setVal(x, tEq(Term{app("Slice_arr", a.S), sInt}, Term{app("Slice_arr", b.S), sInt}))
			return
		}
		e.setVal(x, tEq(a, b))
	case token.NEQ:
		if a.Sort == sSlice {
			e.setVal(x, tNot(tEq(Term{app("Slice_arr", a.S), sInt}, Term{app("Slice_arr", b.S), sInt})))
			return
		}
		e.setVal(x, tNot(tEq(a, b)))
	case token.LSS:
		if isString(t) {
			e.setVal(x, Term{app("strlt", a.S, b.S), sBool})
			return
		}
		cmp("<")
	case token.LEQ:
		cmp("<=")
	case token.GTR:
		cmp(">")
	case token.GEQ:
		cmp(">=")
	case token.ADD:
		if isString(t) {
			r := Term{app("strcat", a.S, b.S), sStr}
			e.usedUF["strcat"] = true
			e.setVal(x, r)
			return
		}
		e.setVal(x, e.wrap(x.Type(), Term{app("+", a.S, b.S), sInt}))
	case token.SUB:
		e.setVal(x, e.wrap(x.Type(), Term{app("-", a.S, b.S), sInt}))
	case token.MUL:
		e.setVal(x, e.wrapMod(x.Type(), e.mulTerm(a, b)))
	case token.QUO, token.REM:
		e.safety("divzero", tNot(tEq(b, tInt(0))), x.Pos())
		if isUnsigned(t) {
			if x.Op == token.REM {
				e.setVal(x, e.modTerm(a, b))
			} else {
				e.setVal(x, e.divTerm(a, b))
			}
			return
		}
		// Go truncated division on signed integers
		absb := fmt.Sprintf("(ite (< %s 0) (- %s) %s)", b.S, b.S, b.S)
		q := fmt.Sprintf("(ite (>= %s 0) (div %s %s) (- (div (- %s) %s)))", a.S, a.S, absb, a.S, absb)
		q = fmt.Sprintf("(ite (< %s 0) (- %s) %s)", b.S, q, q)
		if x.Op == token.QUO {
			e.setVal(x, e.wrap(x.Type(), Term{q, sInt}))
		} else {
			r := fmt.Sprintf("(ite (>= %s 0) (mod %s %s) (- (mod (- %s) %s)))", a.S, a.S, absb, a.S, absb)
			e.setVal(x, Term{r, sInt})
		}
	default:
		// bit operations: uninterpreted result in range
		r := e.havoc("bitop", e.reg.sortOf(x.Type()))
		e.vals[x] = Val{T: r}
		e.assume(e.reg.rangeFact(x.Type(), r))
	}
}

func (e *Enc) convert(x *ssa.Convert) {
	src, dst := x.X.Type(), x.Type()
	v := e.term(x.X)
	if isInteger(src) && isInteger(dst) {
		slo, shi, ok1 := e.reg.intRange(src)
		dlo, dhi, ok2 := e.reg.intRange(dst)
		if ok1 && ok2 && slo.Cmp(dlo) >= 0 && shi.Cmp(dhi) <= 0 {
			e.vals[x] = Val{T: v}
			return
		}
		if !ok1 {
			// untyped constant
			e.vals[x] = Val{T: v}
			return
		}
		e.setVal(x, e.wrapMod(dst, v))
		return
	}
	if isString(dst) {
		// string(rune), string([]rune), string([]byte): uninterpreted
		var r Term
		if isInteger(src) {
			r = Term{app("str_of_rune", v.S), sStr}
			e.usedUF["str_of_rune"] = true
		} else {
			r = e.havoc("strconv", sStr)
		}
		e.setVal(x, r)
		return
	}
	if e.reg.sortOf(src) == e.reg.sortOf(dst) && e.reg.sortOf(src) != sInt {
		e.vals[x] = Val{T: v}
		return
	}
	r := e.havoc("conv", e.reg.sortOf(dst))
	e.vals[x] = Val{T: r}
	e.assume(e.reg.rangeFact(dst, r))
}

func (e *Enc) sliceOp(x *ssa.Slice, st *State) {
	var lo, hi Term
	if x.Low != nil {
		lo = e.term(x.Low)
	} else {
		lo = tInt(0)
	}
	switch xt := x.X.Type().Underlying().(type) {
	case *types.Slice:
		sv := e.term(x.X)
		if x.High != nil {
			hi = e.term(x.High)
		} else {
			hi = Term{app("Slice_len", sv.S), sInt}
		}
		cp := Term{app("Slice_cap", sv.S), sInt}
		mx := cp
		if x.Max != nil {
			mx = e.term(x.Max)
		}
		e.safety("slice", tAnd(Term{app("<=", "0", lo.S), sBool}, Term{app("<=", lo.S, hi.S), sBool}, Term{app("<=", hi.S, mx.S), sBool}, Term{app("<=", mx.S, cp.S), sBool}), x.Pos())
		e.setVal(x, Term{fmt.Sprintf("(mk_Slice (Slice_arr %s) (+ (Slice_off %s) %s) (- %s %s) (- %s %s))", sv.S, sv.S, lo.S, hi.S, lo.S, mx.S, lo.S), sSlice})
	case *types.Basic: // string
		sv := e.term(x.X)
		ln := Term{app("strlen", sv.S), sInt}
		if x.High != nil {
			hi = e.term(x.High)
		} else {
			hi = ln
		}
		e.safety("slice", tAnd(Term{app("<=", "0", lo.S), sBool}, Term{app("<=", lo.S, hi.S), sBool}, Term{app("<=", hi.S, ln.S), sBool}), x.Pos())
		r := Term{app("substr", sv.S, lo.S, hi.S), sStr}
		e.usedUF["substr"] = true
		e.setVal(x, r)
		e.assume(tEq(Term{app("strlen", e.vals[x].T.S), sInt}, Term{app("-", hi.S, lo.S), sInt}))
	case *types.Pointer: // pointer to array
		at := xt.Elem().Underlying().(*types.Array)
		bv := e.val(x.X)
		if bv.Loc != nil {
			panic(unsupported{"slicing a local array"})
		}
		n := fmt.Sprint(at.Len())
		if x.High != nil {
			hi = e.term(x.High)
		} else {
			hi = Term{n, sInt}
		}
		e.safety("slice", tAnd(Term{app("<=", "0", lo.S), sBool}, Term{app("<=", lo.S, hi.S), sBool}, Term{app("<=", hi.S, n), sBool}), x.Pos())
		e.setVal(x, Term{fmt.Sprintf("(mk_Slice %s %s (- %s %s) (- %s %s))", bv.T.S, lo.S, hi.S, lo.S, n, lo.S), sSlice})
	default:
		panic(unsupported{"slice of " + x.X.Type().String()})
	}
	_ = st
}

// backEdges asserts invariants / variants on the back edges leaving block b.
func (e *Enc) backEdges(b *ssa.BasicBlock, st *State) {
	// exit clauses: checked on every edge leaving a loop (other than through a return)
	for _, li := range e.loops {
		if !li.blocks[b] || li.lc == nil || len(li.lc.Exit) == 0 {
			continue
		}
		for _, s := range b.Succs {
			if li.blocks[s] || !strings.HasSuffix(s.Comment, ".done") {
				continue // only edges to the statement after the loop (break / loop condition), not error returns
			}
			g, live := e.edgeGuard[e.edgeKey(b, s)]
			if !live {
				continue
			}
			for k, ex := range li.lc.Exit {
				if ex.HeaderOnly != (b == li.header) {
					continue
				}
				bc := e.blockCtx(b, st, nil)
				cond, ok := e.tryEvalIter(li, bc, ex.E)
				e.noteClause("exit "+ex.Text, ok)
				if !ok {
					continue
				}
				e.terminal = true
				e.obligeG(g, "exit", fmt.Sprintf("loop%d#%d %s", li.ord, k+1, ex.Text), ex.Tags, cond, token.NoPos)
				e.terminal = false
			}
		}
	}
	for _, s := range b.Succs {
		if !e.backEdge[e.edgeKey(b, s)] {
			continue
		}
		li := e.loops[s]
		g, live := e.edgeGuard[e.edgeKey(b, s)]
		if !live {
			continue
		}
		over := map[*ssa.Phi]Term{}
		for _, in := range s.Instrs {
			p, ok := in.(*ssa.Phi)
			if !ok {
				if _, isD := in.(*ssa.DebugRef); isD {
					continue
				}
				break
			}
			for k, bp := range s.Preds {
				if bp == b {
					over[p] = e.term(p.Edges[k])
				}
			}
		}
		c := e.loopCtx(li, st, over, nil)
		e.terminal = true
		defer func() { e.terminal = false }()
		iterVars := e.iterBinder(li)
		c.local = wrapLocal(c.local, iterVars)
		for k, inv := range li.lc.Inv {
			cj := e.p.conjuncts(inv.E, deepSplit)
			for j, cx := range cj {
				label := fmt.Sprintf("loop%d#%d %s", li.ord, k+1, inv.Text)
				if len(cj) > 1 {
					label = fmt.Sprintf("loop%d#%d.%d %s", li.ord, k+1, j+1, exprString(cx))
				}
				e.obligeG(g, "inv-step", label, inv.Tags, c.evalBool(cx), token.NoPos)
			}
		}
		for k, be := range li.lc.Back {
			e.obligeG(g, "backedge", fmt.Sprintf("loop%d#%d %s", li.ord, k+1, be.Text), be.Tags, e.evalIter(li, c, be.E), token.NoPos)
		}
		for k, it := range li.lc.Iter {
			bc := e.blockCtx(b, st, nil)
			inner := bc.local
			bc.local = func(n string) (CVal, bool) {
				if v, ok := c.local(n); ok {
					return v, true
				}
				return inner(n)
			}
			cond, ok := e.tryEvalIter(li, bc, it.E)
			e.noteClause("iteration "+it.Text, ok)
			if !ok {
				continue // a name of the clause is not defined on this path (e.g. a comment line)
			}
			e.obligeG(g, "iteration", fmt.Sprintf("loop%d#%d %s", li.ord, k+1, it.Text), it.Tags, cond, token.NoPos)
		}
		if li.unknown && hasTag(e.panicTags, "C05") {
			// termination is claimed for this function (C05) and this loop has no measure
			e.obligeG(g, "variant", fmt.Sprintf("loop%d has no decreases clause", li.ord), []string{"C05"}, tFalse, token.NoPos)
		}
		for k, d := range li.lc.Dec {
			v1 := c.evalInt(d.E)
			v0 := li.varSnap[k]
			e.obligeG(g, "variant", fmt.Sprintf("loop%d %s", li.ord, d.Text), d.Tags,
				tAnd(Term{app("<=", "0", v0.S), sBool}, Term{app("<", v1.S, v0.S), sBool}), token.NoPos)
		}
	}
}

func wrapLocal(f func(string) (CVal, bool), extra map[string]CVal) func(string) (CVal, bool) {
	return func(n string) (CVal, bool) {
		if v, ok := extra[n]; ok {
			return v, true
		}
		return f(n)
	}
}

func (e *Enc) iterBinder(li *loopInfo) map[string]CVal { return nil }

// evalIter evaluates an expression in which iter(x) denotes the value of x at
// the start of the current iteration (header state after havoc).
func (e *Enc) evalIter(li *loopInfo, c *Ctx, x Expr) Term {
	hc := e.loopCtx(li, li.snap, li.phiSnap, nil)
	c2 := *c
	c2.iter = hc
	return c2.evalBool(x)
}

// tryEvalIter is evalIter that reports (instead of failing) when an identifier is not defined here.
func (e *Enc) tryEvalIter(li *loopInfo, c *Ctx, x Expr) (t Term, ok bool) {
	defer func() {
		if r := recover(); r != nil {
			if ee, isE := r.(evalError); isE && strings.HasPrefix(ee.msg, "unknown identifier") {
				ok = false
				return
			}
			panic(r)
		}
	}()
	return e.evalIter(li, c, x), true
}

// evaluated is an already evaluated sub-expression.
type evaluated struct{ v CVal }

func (e *Enc) ret(x *ssa.Return, st *State) {
	e.retGuards = append(e.retGuards, e.curGuard)
	if e.fc == nil {
		return
	}
	extra := map[string]CVal{}
	res := e.fn.Signature.Results()
	for i, r := range x.Results {
		v := e.val(r)
		if v.Loc != nil {
			panic(unsupported{"returning an interior pointer"})
		}
		cv := CVal{T: v.T, GT: res.At(i).Type()}
		extra[fmt.Sprintf("result.%d", i)] = cv
		if i == 0 {
			extra["result"] = cv
		}
		if n := res.At(i).Name(); n != "" && n != "_" {
			extra[n] = cv
		}
		if i == len(x.Results)-1 && types.Identical(res.At(i).Type(), types.Universe.Lookup("error").Type()) {
			extra["err"] = cv
		}
	}
	c := e.blockCtx(x.Block(), st, extra)
	e.terminal = true
	defer func() { e.terminal = false }()
	// `returns` clauses of the loops this return statement sits in
	for _, li := range e.loops {
		if li.lc == nil || len(li.lc.Ret) == 0 || !e.inLoopBody(li, x.Block()) {
			continue
		}
		for k, rc := range li.lc.Ret {
			cond, ok := func() (t Term, ok bool) {
				defer func() {
					if r := recover(); r != nil {
						if ee, isE := r.(evalError); isE && strings.HasPrefix(ee.msg, "unknown identifier") {
							ok = false
							return
						}
						panic(r)
					}
				}()
				return c.evalBool(rc.E), true
			}()
			e.noteClause("returns "+rc.Text, ok)
			if !ok {
				continue
			}
			e.oblige("loop-return", fmt.Sprintf("loop%d#%d %s", li.ord, k+1, rc.Text), rc.Tags, cond, x.Pos())
		}
	}
	for k, en := range e.fc.Ens {
		cj := e.p.conjuncts(en.E, deepSplit)
		for j, cx := range cj {
			label := fmt.Sprintf("#%d %s", k+1, en.Text)
			if len(cj) > 1 {
				label = fmt.Sprintf("#%d.%d %s", k+1, j+1, exprString(cx))
			}
			// a clause naming a local of the function is checked at the returns where that local is defined
			cond, ok := func() (t Term, ok bool) {
				defer func() {
					if r := recover(); r != nil {
						if ee, isE := r.(evalError); isE && strings.HasPrefix(ee.msg, "unknown identifier") {
							ok = false
							return
						}
						panic(r)
					}
				}()
				return c.evalBool(cx), true
			}()
			e.noteClause("ensures "+label, ok)
			if !ok {
				continue
			}
			e.oblige("post", label, en.Tags, cond, x.Pos())
		}
	}
	_ = strings.TrimSpace
}

// ghost log of a channel: G.chan.nsent[ch] values have been sent so far, the k-th one is G.chan.log.<T>[ch][k].
// The log is append-only: whoever havocs it keeps the entries below the old length (appendOnly).
func chanGhost(e *Enc, et types.Type) (nName, lName, lSort string) {
	return "G.chan.nsent", "G.chan.log." + typeKey(et), arrSort(e.reg.sortOf(et))
}

// appendOnly states that the channel log (n1, l1) extends (n0, l0) at channel ref (all channels if ref is nil).
func (e *Enc) appendOnly(n0, l0, n1, l1 Term, ref *Term) {
	if ref != nil {
		e.assume(Term{app(">=", tSelect(n1, *ref).S, tSelect(n0, *ref).S), sBool})
		k := e.freshName("q_k")
		e.assume(Term{fmt.Sprintf("(forall ((%s Int)) (! (=> (and (<= 0 %s) (< %s %s)) (= (select %s %s) (select %s %s))) :pattern ((select %s %s))))",
			k, k, k, tSelect(n0, *ref).S, tSelect(l1, *ref).S, k, tSelect(l0, *ref).S, k, tSelect(l1, *ref).S, k), sBool})
		return
	}
	c := e.freshName("q_c")
	k := e.freshName("q_k")
	e.assume(Term{fmt.Sprintf("(forall ((%s Int)) (! (>= (select %s %s) (select %s %s)) :pattern ((select %s %s))))", c, n1.S, c, n0.S, c, n1.S, c), sBool})
	e.assume(Term{fmt.Sprintf("(forall ((%s Int) (%s Int)) (! (=> (and (<= 0 %s) (< %s (select %s %s))) (= (select (select %s %s) %s) (select (select %s %s) %s))) :pattern ((select (select %s %s) %s))))",
		c, k, k, k, n0.S, c, l1.S, c, k, l0.S, c, k, l1.S, c, k), sBool})
}

// inLoopBody: is block b part of the loop's source body? The natural loop does not contain the blocks that leave
// it by a return; those are the blocks outside it all of whose predecessors are in the loop or are such blocks
// themselves, other than the loop's normal exit (the block after the loop statement, "....done").
func (e *Enc) inLoopBody(li *loopInfo, b *ssa.BasicBlock) bool {
	if li.blocks[b] {
		return true
	}
	seen := map[*ssa.BasicBlock]bool{}
	var in func(x *ssa.BasicBlock) bool
	in = func(x *ssa.BasicBlock) bool {
		if li.blocks[x] {
			return true
		}
		if seen[x] || len(x.Preds) == 0 || strings.HasSuffix(x.Comment, ".done") {
			return false
		}
		seen[x] = true
		for _, p := range x.Preds {
			if !in(p) {
				return false
			}
		}
		return true
	}
	return in(b)
}
