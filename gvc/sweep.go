package main

// Package-level state sweep (C14a): every Store / MapUpdate / channel send of every
// function of package gmars gets the frame obligation "the written location is not
// rooted in a package-level variable", and no global's address may be passed to a
// call. These obligations are decided by the generator itself (syntactic roots), not
// by the SMT solvers.

import (
	"fmt"
	"go/types"
	"sort"
	"strings"

	"golang.org/x/tools/go/ssa"
)

func rootGlobal(v ssa.Value, depth int) *ssa.Global {
	return rootGlobalSeen(v, map[ssa.Value]bool{})
}

func rootGlobalSeen(v ssa.Value, seen map[ssa.Value]bool) *ssa.Global {
	if v == nil || seen[v] {
		return nil
	}
	seen[v] = true
	switch x := v.(type) {
	case *ssa.Global:
		return x
	case *ssa.FieldAddr:
		return rootGlobalSeen(x.X, seen)
	case *ssa.IndexAddr:
		return rootGlobalSeen(x.X, seen)
	case *ssa.UnOp:
		return rootGlobalSeen(x.X, seen) // load of a pointer / map / slice held in a global
	case *ssa.Slice:
		return rootGlobalSeen(x.X, seen)
	case *ssa.ChangeType:
		return rootGlobalSeen(x.X, seen)
	case *ssa.Phi:
		for _, e := range x.Edges {
			if g := rootGlobalSeen(e, seen); g != nil {
				return g
			}
		}
	case *ssa.Call:
		// the result of append may be its first argument's backing array
		if b, ok := x.Call.Value.(*ssa.Builtin); ok && b.Name() == "append" && len(x.Call.Args) > 0 {
			return rootGlobalSeen(x.Call.Args[0], seen)
		}
	}
	return nil
}

func verifySweep(p *Program) *FuncResult {
	res := &FuncResult{Name: "package-state sweep", Cases: 1}
	var names []string
	for n, fn := range p.funcs {
		if fn.Pkg == nil || fn.Pkg.Pkg.Name() != "gmars" || len(fn.Blocks) == 0 {
			continue
		}
		if fn.Parent() != nil {
			continue // closures are visited with their enclosing function
		}
		if strings.HasPrefix(fn.Name(), "init") {
			continue // package initialisation is the one place allowed to write globals
		}
		pos := p.fset.Position(fn.Pos())
		if strings.HasSuffix(pos.Filename, "_test.go") {
			continue
		}
		names = append(names, n)
	}
	sort.Strings(names)
	id := 0
	add := func(fn *ssa.Function, in ssa.Instruction, what string, g *ssa.Global) {
		id++
		o := &Obl{ID: id, Kind: "frame", Tags: []string{"C14"}, Func: funcName(fn), Solver: "gvc-syntactic", Result: "unsat"}
		o.Name = fmt.Sprintf("sweep/%s[%s: %s]", what, funcName(fn), p.srcLine(in.Pos()))
		if g != nil {
			o.Result = "sat"
			o.Model = "writes package-level variable " + g.Name()
		}
		res.Obls = append(res.Obls, o)
	}
	for _, n := range names {
		fn := p.funcs[n]
		var all []*ssa.Function
		all = append(all, fn)
		all = append(all, fn.AnonFuncs...)
		for _, f := range all {
			for _, b := range f.Blocks {
				for _, in := range b.Instrs {
					switch x := in.(type) {
					case *ssa.Store:
						add(f, in, "global-write", rootGlobal(x.Addr, 0))
					case *ssa.MapUpdate:
						add(f, in, "global-map-write", rootGlobal(x.Map, 0))
					case *ssa.Send:
						add(f, in, "global-chan-send", rootGlobal(x.Chan, 0))
					case *ssa.Call:
						for _, a := range x.Call.Args {
							if g, ok := a.(*ssa.Global); ok {
								add(f, in, "global-address-escapes", g)
							}
						}
						if b, ok := x.Call.Value.(*ssa.Builtin); ok && (b.Name() == "copy" || b.Name() == "delete" || b.Name() == "clear" || b.Name() == "append") && len(x.Call.Args) > 0 {
							// (append writes into the spare capacity of its first argument's backing array)
							add(f, in, "global-"+b.Name(), rootGlobal(x.Call.Args[0], 0))
						}
					}
				}
			}
		}
	}
	// core cells are plain values: a core write can never alias warrior data through a reference
	for _, pkg := range p.typePkgs {
		if pkg.Name() != "gmars" {
			continue
		}
		if obj := pkg.Scope().Lookup("Instruction"); obj != nil {
			id++
			o := &Obl{ID: id, Kind: "type", Tags: []string{"C14"}, Func: "type Instruction", Solver: "gvc-syntactic", Result: "unsat", Name: "sweep/no-reference-fields[type Instruction]"}
			if st, ok := obj.Type().Underlying().(*types.Struct); ok {
				for i := 0; i < st.NumFields(); i++ {
					switch st.Field(i).Type().Underlying().(type) {
					case *types.Basic:
					default:
						o.Result, o.Model = "sat", "field "+st.Field(i).Name()+" is not a plain value"
					}
				}
			}
			res.Obls = append(res.Obls, o)
		}
	}
	return res
}
