package main

// Property checks: `gvc check <id> <tier>` (DESIGN.md section 5).

import (
	"crypto/sha256"
	"encoding/hex"
	"encoding/json"
	"fmt"
	"os"
	"path/filepath"
	"sort"
	"strconv"
	"strings"
	"sync"
	"time"

	"golang.org/x/tools/go/ssa"
)

var verifDir = "/verif"

type propMeta struct {
	Undecided   []string `json:"undecided_parts"`
	Assumptions []string `json:"assumptions"`
}

type knownFinding struct {
	Property   string `json:"property"`
	Obligation string `json:"obligation"` // obligation name (without case); prefix match allowed with trailing *
	What       string `json:"what"`
	Witness    string `json:"witness"`
	Status     string `json:"status"` // open | fixed:<commit>
}

func hasTag(tags []string, id string) bool {
	for _, t := range tags {
		if t == id {
			return true
		}
	}
	return false
}

func (fc *FuncC) allTags() map[string]bool {
	m := map[string]bool{}
	add := func(ts []string) {
		for _, t := range ts {
			m[t] = true
		}
	}
	add(fc.PanicTags)
	for _, c := range fc.Req {
		add(c.Tags)
	}
	for _, c := range fc.Ens {
		add(c.Tags)
	}
	for _, c := range fc.Dec {
		add(c.Tags)
	}
	if fc.Cut != nil {
		for _, c := range fc.Cut.Asserts {
			add(c.Tags)
		}
	}
	for _, l := range fc.Loops {
		for _, cl := range [][]Clause{l.Inv, l.Dec, l.Back, l.Iter, l.Exit, l.Entry, l.Ret} {
			for _, c := range cl {
				add(c.Tags)
			}
		}
	}
	return m
}

type evidence struct {
	PropertyID  string                 `json:"property_id"`
	Tier        string                 `json:"tier"`
	Seed        int                    `json:"seed"`
	Level       string                 `json:"level"`
	Coverage    map[string]interface{} `json:"coverage"`
	Assumptions []string               `json:"assumptions"`
	WallS       float64                `json:"wall_s"`
	Violations  int                    `json:"violations"`
}

func runCheck(args []string) int {
	if args[0] != "check" || len(args) < 3 {
		if args[0] == "replay" && len(args) == 2 {
			return runReplay(args[1])
		}
		if args[0] == "axioms" {
			return runAxioms()
		}
		fmt.Fprintln(os.Stderr, "usage: gvc check <id> quick|thorough")
		return 2
	}
	id, tier := args[1], args[2]
	if tier != "quick" && tier != "thorough" {
		fmt.Fprintln(os.Stderr, "tier must be quick or thorough")
		return 2
	}
	if s := os.Getenv("VERIF_SEED"); s != "" {
		if v, err := strconv.Atoi(s); err == nil {
			solverSeed = v
		}
	}
	t0 := time.Now()
	p, err := loadProgram()
	if err != nil {
		fmt.Fprintln(os.Stderr, "TOOLING-ERROR: load:", err)
		return 2
	}
	timeout := 10
	if tier == "thorough" {
		timeout = 60
		crossCheck = true
	}
	// stale contracts
	for _, name := range p.cs.Order {
		if p.funcs[name] == nil && !strings.HasPrefix(name, "iface:") {
			fmt.Printf("STALE-CONTRACT: contract names function %s which does not exist\n", name)
			return 2
		}
	}
	// functions of this property
	var names []string
	for _, name := range p.cs.Order {
		fc := p.cs.Funcs[name]
		if fc.Kind == "func" && (fc.allTags()[id] || p.callsRequiring(name, id)) {
			names = append(names, name)
		}
	}
	var lemmas []*Lemma
	for _, l := range p.cs.Lemmas {
		if hasTag(l.Tags, id) {
			lemmas = append(lemmas, l)
		}
	}
	if len(names) == 0 && len(lemmas) == 0 && id != "C14" {
		fmt.Fprintf(os.Stderr, "TOOLING-ERROR: no contract clause is tagged %s\n", id)
		return 2
	}
	filter := func(o *Obl) bool { return len(o.Tags) == 0 || hasTag(o.Tags, id) }

	known := loadKnown()
	var results []*FuncResult
	var mu sync.Mutex
	var wg sync.WaitGroup
	sem := make(chan struct{}, 6)
	usesUF := false
	for _, name := range names {
		name := name
		if p.cs.Funcs[name].Arith == "uf" {
			usesUF = true
		}
		wg.Add(1)
		go func() {
			defer wg.Done()
			sem <- struct{}{}
			defer func() { <-sem }()
			r := verifyFunc(p, p.funcs[name], p.cs.Funcs[name], timeout, filter)
			mu.Lock()
			results = append(results, r)
			mu.Unlock()
		}()
	}
	wg.Wait()
	sort.Slice(results, func(i, j int) bool { return results[i].Name < results[j].Name })
	if usesUF {
		results = append(results, verifyAxioms(timeout))
	}
	for _, l := range lemmas {
		results = append(results, verifyLemma(p, l, timeout))
	}
	if id == "C14" {
		results = append(results, verifySweep(p))
	}

	// smoke (vacuity) checks, for functions all of whose obligations were discharged
	failingFn := map[string]bool{}
	for _, r := range results {
		for _, o := range r.Obls {
			if o.Result != "unsat" {
				failingFn[r.Name] = true
			}
		}
	}
	{
		var swg sync.WaitGroup
		vac := make([]string, len(names))
		for i, name := range names {
			i, name := i, name
			swg.Add(1)
			go func() {
				defer swg.Done()
				if failingFn[name] {
					return
				}
				if msg := smoke(p, p.funcs[name], p.cs.Funcs[name]); msg != "" {
					vac[i] = fmt.Sprintf("VACUOUS-CONTRACT: %s: %s", name, msg)
				}
			}()
		}
		swg.Wait()
		for _, v := range vac {
			if v != "" {
				fmt.Println(v)
				return 2
			}
		}
	}

	// aggregate
	type agg struct {
		name      string
		fn        string
		total, ok int
		bad       []*Obl
		solver    map[string]int
		time      float64
		maxT      float64
		tags      []string
		kind      string
	}
	byName := map[string]*agg{}
	var order []string
	exit := 0
	toolErr := false
	leaf := 0
	byBackend := map[string]int{}
	solverTime := 0.0
	for _, r := range results {
		if r.Err != "" {
			if strings.HasPrefix(r.Err, "STALE-CONTRACT") && !strings.Contains(r.Err, "cut line") {
				fmt.Println(r.Err)
				return 2
			}
			// (a cut whose anchor statement was rewritten is treated like an outside-subset rewrite: the function's
			// obligations cannot be generated, none is discharged, the replay search still runs)
			if (strings.HasPrefix(r.Err, "outside-subset") || strings.HasPrefix(r.Err, "STALE-CONTRACT")) && p.cs.Funcs[r.Name] != nil && !strings.HasPrefix(r.Name, "lemma") {
				// a function under contract was rewritten with a construct the generator does not model: its
				// obligations can no longer be generated, so none of them is discharged. Reported as one
				// undischarged obligation (the replay search still runs the real function against the contract).
				fc := p.cs.Funcs[r.Name]
				tags := []string{}
				if fc.allTags()[id] {
					tags = []string{id}
				}
				r.Obls = append(r.Obls, &Obl{ID: 1, Name: fmt.Sprintf("%s/unverifiable[%s]", r.Name, r.Err), Kind: "unverifiable", Tags: tags, Func: r.Name,
					Result: "unknown", Model: "the verification conditions of this function cannot be generated any more: " + r.Err})
				r.Cases = 1
				r.Err = ""
			} else {
				fmt.Printf("TOOLING-ERROR: %s: %s\n", r.Name, r.Err)
				toolErr = true
				continue
			}
		}
		leaf += r.Cases
		for _, o := range r.Obls {
			a := byName[o.Name]
			if a == nil {
				a = &agg{name: o.Name, fn: o.Func, solver: map[string]int{}, tags: o.Tags, kind: o.Kind}
				byName[o.Name] = a
				order = append(order, o.Name)
			}
			a.total++
			a.time += o.TimeS
			if o.TimeS > a.maxT {
				a.maxT = o.TimeS
			}
			solverTime += o.TimeS
			if o.Result == "unsat" {
				a.ok++
				a.solver[o.Solver]++
				byBackend[o.Solver]++
			} else {
				a.bad = append(a.bad, o)
			}
		}
	}
	if toolErr {
		return 2
	}
	if crossStats["contradictions"] > 0 {
		fmt.Printf("TOOLING-ERROR: %d solver contradictions (one solver says unsat, another sat) in the cross-check\n", crossStats["contradictions"])
		return 2
	}
	if len(order) == 0 {
		fmt.Printf("TOOLING-ERROR: property %s generated zero obligations\n", id)
		return 2
	}
	if os.Getenv("GVC_SLOW") != "" {
		for _, n := range order {
			a := byName[n]
			if a.maxT > 2 {
				fmt.Printf("SLOW %.1fs max %.1fs (%d cases) %s\n", a.time, a.maxT, a.total, a.name)
			}
		}
	}
	discharged := 0
	var samples []interface{}
	var knownHit []string
	violations := 0
	var fnames []string
	seenFn := map[string]bool{}
	for _, n := range order {
		a := byName[n]
		if !seenFn[a.fn] {
			seenFn[a.fn] = true
			fnames = append(fnames, a.fn)
		}
		if len(a.bad) == 0 {
			discharged++
			if len(samples) < 12 && (a.kind == "post" || len(samples) < 6) {
				best := ""
				for s := range a.solver {
					best = s
				}
				samples = append(samples, map[string]interface{}{"obligation": a.name, "cases": a.total, "result": "unsat", "solver": best, "solver_time_s": round3(a.time)})
			}
			continue
		}
		// failed obligation: known finding?
		if kf := matchKnown(known, id, a.name); kf != nil {
			fmt.Printf("KNOWN-FINDING: property=%s %s [%s]\n", id, kf.What, a.name)
			knownHit = append(knownHit, a.name)
			continue
		}
		violations++
		exit = 1
		rp := writeReplay(p, id, a.name, a.bad, tier)
		suffix := ""
		if !rp.reproduced {
			suffix = " no-failing-input-found"
		}
		fmt.Printf("VIOLATION property=%s replay=%s%s\n", id, rp.path, suffix)
		fmt.Printf("  failed obligation: %s (%s in %d of %d cases, e.g. {%s})\n", a.name, a.bad[0].Result, len(a.bad), a.total, a.bad[0].Case)
	}
	meta := loadMeta(id)
	assumptions := append([]string{}, meta.Assumptions...)
	for _, name := range p.cs.Order {
		fc := p.cs.Funcs[name]
		if fc.Kind != "func" {
			assumptions = append(assumptions, fmt.Sprintf("%s contract of %s is assumed, not verified", fc.Kind, name))
		}
		for _, c := range fc.EnsAssumed {
			assumptions = append(assumptions, fmt.Sprintf("assumed clause of %s: %s", name, c.Text))
		}
	}
	assumptions = append(assumptions,
		"integers: Go machine arithmetic modelled exactly for + - (wrap-around), conversions, div/mod; non-constant products are an uninterpreted mulI with sound bounds (m <= 2^32 is a stated precondition of the functional claims)",
		"append allocates a fresh backing array (no aliasing through spare capacity); resource exhaustion (huge make) not modelled",
		"heap model: every reference stored in a field or slice is nil or allocated (< $alloc)")
	ev := evidence{PropertyID: id, Tier: tier, Seed: solverSeed, Level: "proof", WallS: round3(time.Since(t0).Seconds()), Violations: violations,
		Assumptions: assumptions,
		Coverage: map[string]interface{}{
			"obligations":              len(order),
			"discharged":               discharged,
			"leaf_queries":             leaf,
			"checker_cmd":              fmt.Sprintf("/verif/check %s %s   (gvc: VCs from go/ssa of /repo's working tree with -tags verif; z3 5.1.0 / z3 4.8.12 / cvc5 1.0.3 portfolio, timeout %ds per query)", id, tier, timeout),
			"trusted_base":             trustedBase,
			"functions_under_contract": fnames,
			"by_backend":               byBackend,
			"solver_time_s":            round3(solverTime),
			"solver_queries":           statQueries,
			"samples":                  samples,
			"known_findings_reported":  knownHit,
			"undecided_parts":          meta.Undecided,
			"bounded":                  []string{},
			"cross_check":              crossStats,
			"explanation":              "every obligation (postcondition, invariant, callee precondition, panic site, frame condition, variant) tagged with this property or supporting it is generated from the current source and must be unsat (negated) on one of the solvers; `obligations` counts distinct obligations, `leaf_queries` the split cases they were decided in",
		}}
	os.MkdirAll(filepath.Join(verifDir, "evidence"), 0o755)
	data, _ := json.MarshalIndent(ev, "", " ")
	os.WriteFile(filepath.Join(verifDir, "evidence", id+".json"), append(data, '\n'), 0o644)
	fmt.Printf("property %s: %d/%d obligations discharged over %d function(s), %d leaf queries, %.1fs\n", id, discharged, len(order), len(fnames), leaf, time.Since(t0).Seconds())
	return exit
}

func round3(f float64) float64 { return float64(int(f*1000+0.5)) / 1000 }

var trustedBase = []string{
	"go/packages + go/ssa (x/tools v0.29.0): translation of the source to SSA",
	"gvc itself: encoding of SSA and contracts into SMT-LIB",
	"SMT solvers z3 5.1.0, z3 4.8.12, cvc5 1.0.3 (an unsat answer of any one of them is accepted)",
	"assumed contracts (extern / trusted items of the contract file), listed under assumptions",
	"user-supplied Reporter implementations do not mutate the simulator",
}

func loadKnown() []knownFinding {
	var kf []knownFinding
	data, err := os.ReadFile(filepath.Join(verifDir, "known_findings.json"))
	if err != nil {
		return nil
	}
	var doc struct {
		Findings []knownFinding `json:"findings"`
	}
	if json.Unmarshal(data, &doc) == nil {
		kf = doc.Findings
	}
	return kf
}

func matchKnown(kf []knownFinding, id, obl string) *knownFinding {
	for i := range kf {
		k := &kf[i]
		if k.Property != id || k.Status != "open" {
			continue
		}
		if k.Obligation == obl {
			return k
		}
		if strings.HasSuffix(k.Obligation, "*") && strings.HasPrefix(obl, strings.TrimSuffix(k.Obligation, "*")) {
			return k
		}
	}
	return nil
}

func loadMeta(id string) propMeta {
	var all map[string]propMeta
	data, err := os.ReadFile(filepath.Join(verifDir, "spec", "properties_meta.json"))
	if err == nil {
		json.Unmarshal(data, &all)
	}
	return all[id]
}

type replayInfo struct {
	path       string
	reproduced bool
}

func writeReplay(p *Program, id, obl string, bad []*Obl, tier string) replayInfo {
	dir := filepath.Join(verifDir, "replays", id)
	os.MkdirAll(dir, 0o755)
	sum := sha256.Sum256([]byte(obl))
	path := filepath.Join(dir, hex.EncodeToString(sum[:6])+".json")
	var cases []map[string]interface{}
	for i, o := range bad {
		if i >= 8 {
			break
		}
		cases = append(cases, map[string]interface{}{"case": o.Case, "result": o.Result, "solver": o.Solver, "time_s": round3(o.TimeS), "solver_output": o.Model})
	}
	doc := map[string]interface{}{
		"property":   id,
		"obligation": obl,
		"function":   bad[0].Func,
		"kind":       bad[0].Kind,
		"source":     bad[0].Pos,
		"tier":       tier,
		"failed_cases": cases,
		"outcome":    "no-failing-input-found",
		"note":       "the obligation is generated from the current source and is no longer discharged; see solver_output",
	}
	rp := replayInfo{path: path}
	if r := tryReplay(p, id, obl, bad, doc); r {
		rp.reproduced = true
		doc["outcome"] = "reproduced"
	}
	data, _ := json.MarshalIndent(doc, "", " ")
	os.WriteFile(path, append(data, '\n'), 0o644)
	return rp
}

// smoke: the function's returns must be reachable under its contract assumptions.
func smoke(p *Program, fn *ssa.Function, fc *FuncC) string {
	e := newEnc(p, fn, fc)
	if err := e.Encode(); err != nil {
		return ""
	}
	// is "requires" alone contradictory?  (assert that the entry is reachable)
	var b strings.Builder
	b.WriteString("(set-option :produce-models true)\n(set-logic ALL)\n")
	// only the declarations and the assumptions made before the first obligation
	pre := e.script()
	// cut the script at the first obligation definition
	if i := strings.Index(pre, "(define-fun ob~1 "); i >= 0 {
		pre = pre[:i]
	}
	r := solve(pre+"(check-sat)\n", 2, "z3-5.1.0")
	if r.Result == "unsat" {
		return "the requires clauses (with the typing facts) are contradictory"
	}
	// some return must be reachable with all assumptions made on the way and all obligations holding
	if len(e.retGuards) > 0 {
		q := e.script() + fmt.Sprintf("(assert %s)\n(assert %s)\n(check-sat)\n", e.okCur, tOr(e.retGuards...).S)
		r := solve(q, 3, "")
		if r.Result == "unsat" {
			return "no return is reachable under the assumed contracts (contradictory assumptions on the way)"
		}
	}
	return ""
}

// callsRequiring: does the function call (statically) a function whose contract has a requires clause tagged id?
// Such a call site carries an obligation of the property although the caller's own clauses do not mention it.
func (p *Program) callsRequiring(name, id string) bool {
	fn := p.funcs[name]
	if fn == nil {
		return false
	}
	for _, b := range fn.Blocks {
		for _, in := range b.Instrs {
			c, ok := in.(ssa.CallInstruction)
			if !ok {
				continue
			}
			callee := c.Common().StaticCallee()
			if callee == nil {
				continue
			}
			if fc := p.cs.Funcs[funcName(callee)]; fc != nil {
				for _, r := range fc.Req {
					if hasTag(r.Tags, id) {
						return true
					}
				}
			}
		}
	}
	return false
}
