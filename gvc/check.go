package main

func runCheck(args []string) int { return 2 }
