package main

import (
	"fmt"
	"go/token"
	"go/types"
	"os"
	"path/filepath"
	"sort"
	"strings"
	"time"

	"golang.org/x/tools/go/packages"
	"golang.org/x/tools/go/ssa"
	"golang.org/x/tools/go/ssa/ssautil"
)

var repoDir = "/repo"

// deepSplit expands pure-function conjunctions into separate obligations (diagnosis aid: GVC_DEEP=1)
var deepSplit = os.Getenv("GVC_DEEP") == "1"

func loadProgram() (*Program, error) {
	if d := os.Getenv("GVC_REPO"); d != "" {
		repoDir = d
	}
	fset := token.NewFileSet()
	cfg := &packages.Config{Mode: packages.LoadAllSyntax, Dir: repoDir, BuildFlags: []string{"-tags=verif"}, Fset: fset,
		Env: append(os.Environ(), "GOFLAGS=-mod=mod", "GOPROXY=off", "GOSUMDB=off", "GOTOOLCHAIN=local")}
	pkgs, err := packages.Load(cfg, ".", "./cmd/gmars")
	if err != nil {
		return nil, err
	}
	for _, p := range pkgs {
		if len(p.Errors) > 0 {
			return nil, fmt.Errorf("package %s does not type-check: %v", p.PkgPath, p.Errors[0])
		}
	}
	prog, spkgs := ssautil.AllPackages(pkgs, ssa.GlobalDebug)
	prog.Build()
	p := &Program{prog: prog, fset: fset, funcs: map[string]*ssa.Function{}, ufs: map[string]ufDecl{}, srcLines: map[string][]string{}}
	for _, sp := range spkgs {
		if sp == nil {
			continue
		}
		n := sp.Pkg.Name()
		if n == "gmars" || n == "main" {
			p.typePkgs = append(p.typePkgs, sp.Pkg)
		}
	}
	for fn := range ssautil.AllFunctions(prog) {
		if fn.Synthetic != "" && !strings.HasPrefix(fn.Name(), "init") {
			continue
		}
		name := funcName(fn)
		if old, ok := p.funcs[name]; ok && old.Pkg != nil && fn.Pkg == nil {
			continue
		}
		p.funcs[name] = fn
		if fn.Pkg != nil && (fn.Pkg.Pkg.Name() == "gmars") {
			p.allFuncs = append(p.allFuncs, fn)
		}
	}
	sort.Slice(p.allFuncs, func(i, j int) bool { return funcName(p.allFuncs[i]) < funcName(p.allFuncs[j]) })
	// contract files
	var files []string
	for _, pat := range []string{"verif_contracts*.go", "cmd/gmars/verif_contracts*.go"} {
		m, _ := filepath.Glob(filepath.Join(repoDir, pat))
		sort.Strings(m)
		files = append(files, m...)
	}
	specs, _ := filepath.Glob("/verif/spec/*.spec")
	sort.Strings(specs)
	files = append(files, specs...)
	cs, err := ParseContracts(files)
	if err != nil {
		return nil, err
	}
	p.cs = cs
	return p, nil
}

func main() {
	if len(os.Args) < 2 {
		fmt.Fprintln(os.Stderr, "usage: gvc verify <func>... | dump <func> | check <id> <tier> | list")
		os.Exit(2)
	}
	if v := os.Getenv("VERIF_SEED"); v != "" {
		fmt.Sscan(v, &solverSeed)
	}
	initWorkDir()
	defer cleanupWorkDir()
	code := run(os.Args[1:])
	cleanupWorkDir()
	os.Exit(code)
}

func run(args []string) int {
	switch args[0] {
	case "rac":
		// debugging aid: run the replay search on functions of the current tree and print what it finds
		p, err := loadProgram()
		if err != nil {
			fmt.Fprintln(os.Stderr, err)
			return 2
		}
		for _, name := range args[1:] {
			t0 := time.Now()
			r := racFunction(p, name)
			fmt.Printf("%.1fs ", time.Since(t0).Seconds())
			fmt.Printf("%s: %d executions, %d legal, %d refutations; %s\n", name, r.Tries, r.Legal, len(r.Refuted), r.Note)
			seen := map[string]bool{}
			for _, x := range r.Refuted {
				if !seen[x.Clause] {
					seen[x.Clause] = true
					fmt.Printf("   REFUTED %s %v (try %d) %s\n", x.Clause, x.Tags, x.Try, x.Panic)
				}
			}
		}
		return 0
	case "verify", "dump":
		p, err := loadProgram()
		if err != nil {
			fmt.Fprintln(os.Stderr, "load:", err)
			return 2
		}
		bad := 0
		for _, name := range args[1:] {
			if strings.HasPrefix(name, "lemma:") {
				for _, l := range p.cs.Lemmas {
					if l.Name == name[6:] {
						r := verifyLemma(p, l, 10)
						if r.Err != "" {
							fmt.Println("ERROR", r.Err)
							bad++
							continue
						}
						okc := 0
						for _, o := range r.Obls {
							if o.Result != "unsat" {
								bad++
								fmt.Printf("  %s %s {%s} %s %.2fs\n", o.Result, o.Name, o.Case, o.Solver, o.TimeS)
							} else {
								okc++
							}
						}
						fmt.Printf("lemma %s: %d/%d obligations discharged (%d cases)\n", l.Name, okc, len(r.Obls), r.Cases)
					}
				}
				continue
			}
			fn := p.funcs[name]
			if fn == nil {
				fmt.Printf("no such function %q\n", name)
				return 2
			}
			fc := p.cs.Funcs[name]
			if args[0] == "dump" {
				e := newEnc(p, fn, fc)
				if cv := os.Getenv("GVC_CASEVALS"); cv != "" {
					for _, x := range strings.Split(cv, ",") {
						var v int64
						fmt.Sscan(x, &v)
						e.caseVals = append(e.caseVals, v)
					}
				}
				if os.Getenv("GVC_CASEREST") != "" {
					e.caseRest = true
				}
				if ph := os.Getenv("GVC_PHASE"); ph != "" {
					fmt.Sscan(ph, &e.phase)
				}
				if err := e.Encode(); err != nil {
					fmt.Println("ERROR:", err)
				}
				fmt.Print(e.script())
				for _, o := range e.obls {
					fmt.Printf("; OBL %d %s  pre=%s\n", o.ID, o.Name, o.okPre)
				}
				continue
			}
			if fc != nil && fc.Kind != "func" {
				fmt.Printf("%s: %s (assumed contract, body not verified)\n", name, fc.Kind)
				continue
			}
			r := verifyFunc(p, fn, fc, 10, nil)
			if r.Err != "" {
				fmt.Printf("%s: ERROR %s\n", name, r.Err)
				bad++
				continue
			}
			for _, w := range r.Warnings {
				fmt.Printf("  warning: %s\n", w)
			}
			ok := 0
			for _, o := range r.Obls {
				if o.Result == "unsat" {
					ok++
				} else {
					bad++
					nm := o.Name
					if len(nm) > 260 {
						nm = nm[:80] + " ... " + nm[len(nm)-170:]
					}
					fmt.Printf("  %-7s %s {%s} %s %.2fs %s\n", o.Result, nm, o.Case, o.Solver, o.TimeS, firstLine(o.Model))
				}
			}
			fmt.Printf("%s: %d/%d obligations discharged (%d cases)\n", name, ok, len(r.Obls), r.Cases)
			if msg := smoke(p, fn, fc); msg != "" && ok == len(r.Obls) {
				fmt.Printf("  VACUOUS: %s\n", msg)
				bad++
			}
		}
		if bad > 0 {
			return 1
		}
		return 0
	case "list":
		p, err := loadProgram()
		if err != nil {
			fmt.Fprintln(os.Stderr, "load:", err)
			return 2
		}
		var names []string
		for n := range p.funcs {
			fn := p.funcs[n]
			if fn.Pkg != nil && (fn.Pkg.Pkg.Name() == "gmars" || fn.Pkg.Pkg.Name() == "main") {
				names = append(names, n)
			}
		}
		sort.Strings(names)
		for _, n := range names {
			mark := " "
			if p.cs.Funcs[n] != nil {
				mark = "C"
			}
			fmt.Printf("%s %s\n", mark, n)
		}
		return 0
	}
	return runCheck(args)
}

func firstLine(s string) string {
	if i := strings.Index(s, "\n"); i >= 0 {
		return s[:i]
	}
	return s
}

var _ = types.Typ
