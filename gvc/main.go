package main

import (
	"fmt"
	"os"

	"golang.org/x/tools/go/packages"
	"golang.org/x/tools/go/ssa"
	"golang.org/x/tools/go/ssa/ssautil"
)

func main() {
	cfg := &packages.Config{Mode: packages.LoadAllSyntax, Dir: "/repo", BuildFlags: []string{"-tags=verif"}}
	pkgs, err := packages.Load(cfg, ".", "./cmd/gmars")
	if err != nil {
		panic(err)
	}
	prog, spkgs := ssautil.AllPackages(pkgs, ssa.GlobalDebug)
	prog.Build()
	for _, p := range spkgs {
		fmt.Println(p.Pkg.Path(), len(p.Members))
	}
	fn := spkgs[0].Prog.FuncValue(nil)
	_ = fn
	f := spkgs[0].Type("reportSim")
	ms := prog.MethodSets.MethodSet(f.Type())
	_ = ms
	for _, m := range spkgs[0].Members {
		if fn, ok := m.(*ssa.Function); ok && fn.Name() == "parseAddress" {
			fn.WriteTo(os.Stdout)
		}
	}
}
