package main

import (
	"fmt"
	"go/token"
	"go/types"
	"math/big"
	"sort"
	"strings"

	"golang.org/x/tools/go/ssa"
)

type bigInt = big.Int

// Encode generates the script and obligations for the function.
func (e *Enc) Encode() (err error) {
	defer func() {
		if r := recover(); r != nil {
			switch x := r.(type) {
			case unsupported:
				err = fmt.Errorf("outside-subset: %s", x.msg)
			case evalError:
				err = fmt.Errorf("contract error in %s: %s", funcName(e.fn), x.msg)
			default:
				panic(r)
			}
		}
	}()
	fn := e.fn
	if len(fn.Blocks) == 0 {
		return fmt.Errorf("function %s has no body", funcName(fn))
	}
	if e.fc != nil {
		e.panicTags = e.fc.PanicTags
		e.ufArith = e.fc.Arith == "uf"
	}
	e.analyzeLoops()
	if e.fc != nil {
		e.splits = e.fc.Splits
	}
	if e.phase != 0 {
		if e.fc == nil || e.fc.Cut == nil {
			return fmt.Errorf("internal: phase without cut")
		}
		for _, b := range fn.Blocks {
			for _, in := range b.Instrs {
				if e.cutInstr == nil && in.Pos().IsValid() && e.p.srcLine(in.Pos()) == e.fc.Cut.Line {
					if _, isDbg := in.(*ssa.DebugRef); !isDbg {
						e.cutInstr = in
					}
				}
			}
		}
		if e.cutInstr == nil {
			return fmt.Errorf("STALE-CONTRACT: %s: cut line %q not found", funcName(fn), e.fc.Cut.Line)
		}
		if e.phase == 2 {
			e.splits = e.fc.Cut.Splits
		}
	}
	// cross-check loop contracts
	if e.fc != nil {
		for ord := range e.fc.Loops {
			if ord < 1 || ord > len(e.loops) {
				// a loop contract without a loop (the loop was rewritten away): its clauses are void; the
				// remaining obligations decide whether the rewrite still meets the function's contract
				e.warn("contract of %s names loop %d but the function has %d loops: loop clauses ignored", funcName(fn), ord, len(e.loops))
			}
		}
	}
	for _, li := range e.loops {
		if li.lc == nil {
			if e.fc == nil {
				return fmt.Errorf("outside-subset: loop %d of %s has no invariant", li.ord, funcName(fn))
			}
			// a loop the contract does not know (the function was rewritten): it gets the weakest loop contract
			// (invariant true, everything the loop writes is havocked, no termination claim), so that whatever the
			// function's own clauses still need from the loop shows up as their failure rather than as a tooling error
			e.warn("loop %d of %s has no loop contract: invariant true assumed", li.ord, funcName(fn))
			li.lc = &LoopC{}
			li.unknown = true
		}
	}
	// collect debug refs (source names of values)
	for _, b := range fn.Blocks {
		for _, in := range b.Instrs {
			if d, ok := in.(*ssa.DebugRef); ok {
				if id, ok := d.Expr.(interface{ String() string }); ok {
					_ = id
				}
				if obj := d.Object(); obj != nil {
					e.debugVals[obj.Name()] = append(e.debugVals[obj.Name()], d.X)
				}
			}
		}
	}

	st := &State{heap: map[string]Term{}, locals: map[*ssa.Alloc]Term{}}
	st.alloc = Term{"alloc@0", sInt}
	e.heapInits["$alloc"] = st.alloc
	e.emit("(assert (>= alloc@0 1))")
	e.init = st.clone()

	// parameters
	for _, p := range fn.Params {
		srt := e.reg.sortOf(p.Type())
		t := Term{"p." + sanitize(p.Name()), srt}
		e.emit("(declare-const %s %s)", t.S, srt)
		e.vals[p] = Val{T: t}
		e.params[p.Name()] = CVal{T: t, GT: p.Type()}
		e.assumeTyped(p.Type(), t, st)
	}
	for _, fv := range fn.FreeVars {
		return fmt.Errorf("outside-subset: closure with free variable %s", fv.Name())
	}

	// modifies targets are evaluated in the pre-state
	ctx0 := e.ctx(e.init, e.init, nil)
	if e.fc != nil {
		for _, t := range e.fc.Mod {
			e.modRefs = append(e.modRefs, e.evalTarget(ctx0, t)...)
		}
		for _, c := range e.fc.Req {
			e.assumeG(tTrue, ctx0.evalBool(c.E))
		}
		if e.phase != 2 {
			e.applySplitCase(ctx0)
		}
		// spec values over the entry state: definitions, or opaque constants after a cut
		for _, sp := range e.fc.Specs {
			c := e.ctx(e.init, e.init, nil)
			if e.phase == 2 {
				nl := len(e.lines)
				saved := e.mulSeen
				e.mulSeen = map[string]bool{}
				v := c.eval(sp.E)
				e.lines = e.lines[:nl]
				e.mulSeen = saved
				v.T = e.havoc("spec_"+sp.Name, v.T.Sort)
				e.specVals[sp.Name] = v
				continue
			}
			v := c.eval(sp.E)
			v.T = e.def("spec_"+sp.Name, v.T)
			e.specVals[sp.Name] = v
		}
	}

	order := e.rpo()
	for _, b := range order {
		e.processBlock(b)
	}
	if e.caseVals == nil && !e.caseRest {
		for _, k := range sortedKeys(e.clauseSeen) {
			if !e.clauseSeen[k] {
				return fmt.Errorf("contract error in %s: clause %q names an identifier that is defined on no path where the clause applies", funcName(fn), k)
			}
		}
	}
	return nil
}

func (e *Enc) ctx(st, old *State, extra map[string]CVal) *Ctx {
	vars := map[string]CVal{}
	for k, v := range e.params {
		vars[k] = v
	}
	for k, v := range e.specVals {
		vars[k] = v
	}
	for k, v := range extra {
		vars[k] = v
	}
	return &Ctx{e: e, st: st, old: old, vars: vars}
}

// assumeTyped assumes the well-typedness facts of a freshly introduced value.
func (e *Enc) assumeTyped(t types.Type, v Term, st *State) {
	f := e.reg.rangeFact(t, v)
	switch t.Underlying().(type) {
	case *types.Pointer, *types.Map, *types.Chan:
		f = tAnd(f, Term{app("<", v.S, st.alloc.S), sBool})
	case *types.Slice:
		f = tAnd(f, Term{app("<", app("Slice_arr", v.S), st.alloc.S), sBool})
	case *types.Struct:
		// slices / pointers nested in struct values
		si := e.reg.structOf(t)
		for i, fi := range si.fields {
			switch fi.typ.Underlying().(type) {
			case *types.Pointer, *types.Map, *types.Chan:
				f = tAnd(f, Term{app("<", si.get(v, i).S, st.alloc.S), sBool})
			case *types.Slice:
				f = tAnd(f, Term{app("<", app("Slice_arr", si.get(v, i).S), st.alloc.S), sBool})
			}
		}
	}
	e.assume(f)
}

func (e *Enc) edgeKey(a, b *ssa.BasicBlock) [2]int { return [2]int{a.Index, b.Index} }

func (e *Enc) mergeStates(states []*State, guards []Term) *State {
	if len(states) == 1 {
		return states[0].clone()
	}
	res := &State{heap: map[string]Term{}, locals: map[*ssa.Alloc]Term{}}
	names := map[string]string{}
	for _, s := range states {
		for k, v := range s.heap {
			names[k] = v.Sort
		}
	}
	merge := func(get func(s *State) Term, prefix string) Term {
		first := get(states[0])
		same := true
		for _, s := range states[1:] {
			if get(s).S != first.S {
				same = false
			}
		}
		if same {
			return first
		}
		t := get(states[len(states)-1])
		for i := len(states) - 2; i >= 0; i-- {
			t = tIte(guards[i], get(states[i]), t)
		}
		return e.def(prefix, t)
	}
	for _, k := range sortedKeys(names) {
		k := k
		srt := names[k]
		res.heap[k] = merge(func(s *State) Term { return s.heapGet(e, k, srt) }, k)
	}
	// locals: only those present in all states
	for a := range states[0].locals {
		a := a
		all := true
		for _, s := range states[1:] {
			if _, ok := s.locals[a]; !ok {
				all = false
			}
		}
		if all {
			res.locals[a] = merge(func(s *State) Term { return s.locals[a] }, "loc_"+a.Comment)
		}
	}
	res.alloc = merge(func(s *State) Term { return s.alloc }, "alloc")
	return res
}

// skipBlock (phase 2, before the cut) binds every value of the block to an
// unconstrained constant; pointer descriptors keep their structure.
func (e *Enc) skipInstrs(instrs []ssa.Instruction, st *State) {
	e.quiet = true
	defer func() { e.quiet = false }()
	for _, in := range instrs {
		switch x := in.(type) {
		case *ssa.DebugRef, *ssa.Store, *ssa.If, *ssa.Jump, *ssa.Return, *ssa.Panic, *ssa.RunDefers, *ssa.MapUpdate, *ssa.Send, *ssa.Go, *ssa.Defer:
			continue
		case *ssa.Alloc, *ssa.FieldAddr, *ssa.IndexAddr:
			e.instr(in, st)
		case ssa.Value:
			if tup, ok := x.Type().(*types.Tuple); ok {
				var vs []Val
				for i := 0; i < tup.Len(); i++ {
					t := e.havoc("cut_"+x.Name(), e.reg.sortOf(tup.At(i).Type()))
					e.emit("(assert %s)", e.reg.rangeFact(tup.At(i).Type(), t).S)
					vs = append(vs, Val{T: t})
				}
				e.vals[x] = Val{Tuple: vs}
				continue
			}
			if ex, ok := in.(*ssa.Extract); ok {
				e.vals[ex] = e.val(ex.Tuple).Tuple[ex.Index]
				continue
			}
			t := e.havoc("cut_"+x.Name(), e.reg.sortOf(x.Type()))
			e.emit("(assert %s)", e.reg.rangeFact(x.Type(), t).S) // a Go value of its type
			e.vals[x] = Val{T: t}
		}
	}
}

// applySplitCase fixes the split expressions of the current case (partial
// evaluation under these constants) or, in the remainder case, asserts that some
// split expression is outside its range.
func (e *Enc) applySplitCase(c *Ctx) {
	if e.caseVals == nil && !e.caseRest {
		return
	}
	var outside []Term
	for i, sp := range e.splits {
		exprs := append([]Expr{sp.E}, sp.Alts...)
		for _, x := range exprs {
			t := c.evalInt(x)
			if e.caseRest {
				outside = append(outside, Term{app("<", t.S, fmt.Sprint(sp.Lo)), sBool}, Term{app(">", t.S, fmt.Sprint(sp.Hi)), sBool})
				continue
			}
			v := tInt(e.caseVals[i])
			if !isNumeral(t.S) {
				e.emit("(assert (= %s %s))", t.S, v.S)
				e.known[e.expand(t.S)] = v.S
			}
		}
	}
	if e.caseRest {
		e.emit("(assert %s)", tOr(outside...).S)
	}
}

func (e *Enc) cutCtx(st *State) *Ctx {
	c := e.ctx(st, e.init, nil)
	c.local = func(name string) (CVal, bool) {
		vs := e.debugVals[name]
		cb := e.cutInstr.Block()
		var best ssa.Value
		for _, v := range vs {
			if a, ok := v.(*ssa.Alloc); ok {
				if r, ok := e.vals[a]; ok && r.Loc != nil {
					if _, live := st.locals[a]; live {
						return CVal{T: e.read(r.Loc, st), GT: a.Type().(*types.Pointer).Elem()}, true
					}
				}
				continue
			}
			ins, isIns := v.(ssa.Instruction)
			if isIns && !(ins.Block() == cb || ins.Block().Dominates(cb)) {
				continue
			}
			if isIns && ins.Block() == cb {
				// must be defined before the cut instruction
				before := false
				for _, x := range cb.Instrs {
					if x == e.cutInstr {
						break
					}
					if x == ins {
						before = true
					}
				}
				if !before {
					continue
				}
			}
			if r, ok := e.vals[v]; ok && r.Loc == nil {
				// prefer the definition closest to the cut in the dominator tree
				if best == nil {
					best = v
				} else if bi, ok := best.(ssa.Instruction); ok && isIns && domDepth(ins.Block()) > domDepth(bi.Block()) {
					best = v
				}
			}
		}
		if best != nil {
			return CVal{T: e.vals[best].T, GT: best.Type()}, true
		}
		return CVal{}, false
	}
	return c
}

// atCut handles the cut instruction: phase 1 asserts the cut clauses and stops;
// phase 2 havocs what was written before, assumes them and goes on.
func (e *Enc) cutAssert(st *State) {
	c := e.cutCtx(st)
	e.terminal = true
	defer func() { e.terminal = false }()
	for k, a := range e.fc.Cut.Asserts {
		cj := e.p.conjuncts(a.E, deepSplit)
		for j, cx := range cj {
			label := fmt.Sprintf("#%d %s", k+1, a.Text)
			if len(cj) > 1 {
				label = fmt.Sprintf("#%d.%d %s", k+1, j+1, exprString(cx))
			}
			e.oblige("cut", label, a.Tags, c.evalBool(cx), token.NoPos)
		}
	}
}

func (e *Enc) preCutInstrs() []ssa.Instruction {
	cb := e.cutInstr.Block()
	var out []ssa.Instruction
	for _, b := range e.fn.Blocks {
		if b == cb {
			for _, in := range b.Instrs {
				if in == e.cutInstr {
					break
				}
				out = append(out, in)
			}
			continue
		}
		if !cb.Dominates(b) {
			out = append(out, b.Instrs...)
		}
	}
	return out
}

func (e *Enc) processBlock(b *ssa.BasicBlock) {
	fn := e.fn
	if e.phase == 2 {
		cb := e.cutInstr.Block()
		if b != cb && !cb.Dominates(b) {
			scratch := e.init.clone()
			for a, v := range e.scratchLocals {
				scratch.locals[a] = v
			}
			e.curBlock = b
			e.skipInstrs(b.Instrs, scratch)
			for a, v := range scratch.locals {
				e.scratchLocals[a] = v
			}
			return
		}
		if b == cb {
			scratch := e.init.clone()
			for a, v := range e.scratchLocals {
				scratch.locals[a] = v
			}
			e.curBlock = b
			var pre, post []ssa.Instruction
			seen := false
			for _, in := range b.Instrs {
				if in == e.cutInstr {
					seen = true
				}
				if seen {
					post = append(post, in)
				} else {
					pre = append(pre, in)
				}
			}
			e.skipInstrs(pre, scratch)
			// state at the cut: the entry state with everything written so far havocked
			st := e.init.clone()
			for a := range scratch.locals {
				st.locals[a] = e.reg.zero(a.Type().(*types.Pointer).Elem()) // live; value havocked below
			}
			region := map[ssa.Instruction]bool{}
			preAll := e.preCutInstrs()
			for _, in := range preAll {
				region[in] = true
			}
			ws := e.writeSetOf(preAll, func(in ssa.Instruction) bool { return region[in] })
			for a := range scratch.locals {
				ws.locals[a] = true
			}
			e.applyHavoc(ws, st)
			e.blockG[b] = tTrue
			e.curGuard = tTrue
			e.curState = st
			c := e.cutCtx(st)
			e.applySplitCase(c)
			for _, a := range e.fc.Cut.Asserts {
				e.assume(c.evalBool(a.E))
			}
			for _, in := range post {
				e.instr(in, st)
			}
			e.outState[b] = st
			return
		}
	}
	var st *State
	var guard Term
	li := e.loops[b]
	var entryPreds []*ssa.BasicBlock
	var entryGuards []Term
	if b == fn.Blocks[0] {
		st = e.init.clone()
		guard = tTrue
	} else {
		var states []*State
		for _, p := range b.Preds {
			if e.backEdge[e.edgeKey(p, b)] {
				continue
			}
			g, ok := e.edgeGuard[e.edgeKey(p, b)]
			if !ok {
				continue // unreachable predecessor
			}
			entryPreds = append(entryPreds, p)
			entryGuards = append(entryGuards, g)
			states = append(states, e.outState[p])
		}
		if len(states) == 0 {
			return // unreachable
		}
		guard = e.def(fmt.Sprintf("g_b%d", b.Index), tOr(entryGuards...))
		if guard.S == "false" {
			return // unreachable in this split case
		}
		// drop predecessors whose edge is dead in this case
		{
			var ps []*ssa.BasicBlock
			var gs []Term
			var ss []*State
			for i := range entryPreds {
				if entryGuards[i].S != "false" {
					ps, gs, ss = append(ps, entryPreds[i]), append(gs, entryGuards[i]), append(ss, states[i])
				}
			}
			entryPreds, entryGuards, states = ps, gs, ss
		}
		st = e.mergeStates(states, entryGuards)
	}
	e.blockG[b] = guard
	e.curGuard = guard
	e.curState = st
	e.curBlock = b

	// phis
	var phis []*ssa.Phi
	for _, in := range b.Instrs {
		if p, ok := in.(*ssa.Phi); ok {
			phis = append(phis, p)
		} else if _, ok := in.(*ssa.DebugRef); ok {
			continue
		} else {
			break
		}
	}
	phiEntry := map[*ssa.Phi]Term{}
	for _, p := range phis {
		var t Term
		set := false
		for i := len(entryPreds) - 1; i >= 0; i-- {
			pred := entryPreds[i]
			var edgeVal ssa.Value
			for k, bp := range b.Preds {
				if bp == pred {
					edgeVal = p.Edges[k]
				}
			}
			vt := e.term(edgeVal)
			if !set {
				t = vt
				set = true
			} else {
				t = tIte(entryGuards[i], vt, t)
			}
		}
		phiEntry[p] = e.def("phi_"+p.Comment, t)
	}

	if li == nil {
		for _, p := range phis {
			e.vals[p] = Val{T: phiEntry[p]}
		}
	} else {
		// loop header: assert invariants on entry, havoc, assume invariants
		lc := li.lc
		over := map[*ssa.Phi]Term{}
		for p, t := range phiEntry {
			over[p] = t
		}
		for k, inv := range lc.Inv {
			c := e.loopCtx(li, st, over, nil)
			cj := e.p.conjuncts(inv.E, deepSplit)
			for j, cx := range cj {
				label := fmt.Sprintf("loop%d#%d %s", li.ord, k+1, inv.Text)
				if len(cj) > 1 {
					label = fmt.Sprintf("loop%d#%d.%d %s", li.ord, k+1, j+1, exprString(cx))
				}
				e.oblige("inv-entry", label, inv.Tags, c.evalBool(cx), token.NoPos)
			}
		}
		for k, en := range lc.Entry {
			c := e.loopCtx(li, st, over, nil)
			e.oblige("loop-entry", fmt.Sprintf("loop%d#%d %s", li.ord, k+1, en.Text), en.Tags, c.evalBool(en.E), token.NoPos)
		}
		// havoc
		e.havocLoop(li, st)
		li.phiSnap = map[*ssa.Phi]Term{}
		for _, p := range phis {
			t := e.havoc("phi_"+p.Comment, e.reg.sortOf(p.Type()))
			e.vals[p] = Val{T: t}
			li.phiSnap[p] = t
		}
		for _, p := range phis {
			e.assumeTyped(p.Type(), li.phiSnap[p], st)
		}
		li.snap = st.clone()
		li.guard = guard
		c := e.loopCtx(li, st, li.phiSnap, nil)
		for _, inv := range lc.Inv {
			e.assume(c.evalBool(inv.E))
		}
		for _, d := range lc.Dec {
			li.varSnap = append(li.varSnap, e.def("variant", c.evalInt(d.E)))
		}
	}

	for _, in := range b.Instrs {
		if _, ok := in.(*ssa.Phi); ok {
			continue
		}
		if e.phase == 1 && in == e.cutInstr {
			e.cutAssert(st)
			return // nothing beyond the cut in phase 1
		}
		e.instr(in, st)
	}
	e.outState[b] = st
}

// loopCtx builds the evaluation context for loop clauses: source-level names
// resolve to SSA values; header phis take the given override.
// blockCtx: source-level names resolve to the SSA values whose definition dominates block at.
func (e *Enc) blockCtx(at *ssa.BasicBlock, st *State, extra map[string]CVal) *Ctx {
	c := e.ctx(st, e.init, extra)
	c.local = func(name string) (CVal, bool) {
		var best ssa.Value
		for _, v := range e.debugVals[name] {
			if a, ok := v.(*ssa.Alloc); ok {
				if r, ok := e.vals[a]; ok && r.Loc != nil {
					if _, live := st.locals[a]; live {
						return CVal{T: e.read(r.Loc, st), GT: a.Type().(*types.Pointer).Elem()}, true
					}
				}
				continue
			}
			if r, ok := e.vals[v]; !ok || r.Loc != nil {
				continue
			}
			if ins, ok := v.(ssa.Instruction); ok {
				if !(ins.Block() == at || ins.Block().Dominates(at)) {
					continue
				}
				if best != nil {
					if bi, ok := best.(ssa.Instruction); ok && domDepth(ins.Block()) <= domDepth(bi.Block()) {
						continue
					}
				}
			} else if best != nil {
				continue // a parameter: the farthest definition
			}
			best = v
		}
		if best != nil {
			return CVal{T: e.vals[best].T, GT: best.Type()}, true
		}
		return CVal{}, false
	}
	return c
}

func (e *Enc) loopCtx(li *loopInfo, st *State, over map[*ssa.Phi]Term, extra map[string]CVal) *Ctx {
	c := e.ctx(st, e.init, extra)
	// enclosing loop (for outer(e)): the smallest other loop containing this header
	var parent *loopInfo
	for _, l2 := range e.loops {
		if l2 != li && l2.blocks[li.header] && l2.snap != nil && (parent == nil || len(l2.blocks) < len(parent.blocks)) {
			parent = l2
		}
	}
	if parent != nil {
		c.outer = e.loopCtx(parent, parent.snap, parent.phiSnap, nil)
	}
	c.local = func(name string) (CVal, bool) {
		vs := e.debugVals[name]
		// hidden loop variables (range index) are addressed by the phi comment
		for p, t := range over {
			if p.Comment == name && p.Block() == li.header {
				return CVal{T: t, GT: p.Type()}, true
			}
		}
		// prefer a phi of this header
		for _, v := range vs {
			if p, ok := v.(*ssa.Phi); ok && p.Block() == li.header {
				if t, ok := over[p]; ok {
					return CVal{T: t, GT: p.Type()}, true
				}
			}
		}
		var best CVal
		bestDepth, haveBest := -2, false
		for _, v := range vs {
			if a, ok := v.(*ssa.Alloc); ok {
				if r, ok := e.vals[a]; ok && r.Loc != nil {
					if _, live := st.locals[a]; live {
						return CVal{T: e.read(r.Loc, st), GT: a.Type().(*types.Pointer).Elem()}, true
					}
				}
				continue
			}
			if p, ok := v.(*ssa.Phi); ok {
				if l2 := e.loops[p.Block()]; l2 != nil && l2 != li && !l2.blocks[li.header] {
					continue
				}
			}
			if r, ok := e.vals[v]; ok && r.Loc == nil && v.Parent() == e.fn {
				// the definition closest to the loop header among those dominating it (a parameter is the farthest)
				depth := -1
				if ins, ok := v.(ssa.Instruction); ok {
					if !ins.Block().Dominates(li.header) {
						continue
					}
					depth = domDepth(ins.Block())
				}
				if !haveBest || depth > bestDepth {
					best, bestDepth, haveBest = CVal{T: r.T, GT: v.Type()}, depth, true
				}
			}
		}
		if haveBest {
			return best, true
		}
		return CVal{}, false
	}
	return c
}

func (e *Enc) iterCtx(li *loopInfo, st *State, over map[*ssa.Phi]Term) *Ctx {
	c := e.loopCtx(li, st, over, nil)
	return c
}

// ---------- loop havoc ----------

type deferredWrite struct {
	elemHeap, fieldHeap, fieldSort string
	base                           Term
}

type writeSet struct {
	deferred []deferredWrite
	coarse  map[string]string // heap name -> sort
	precise map[string][]Term // heap name -> refs
	sorts   map[string]string
	locals  map[*ssa.Alloc]bool
	alloc   bool
}

func (e *Enc) havocLoop(li *loopInfo, st *State) {
	var instrs []ssa.Instruction
	var blocks []*ssa.BasicBlock
	for b := range li.blocks {
		blocks = append(blocks, b)
	}
	sort.Slice(blocks, func(i, j int) bool { return blocks[i].Index < blocks[j].Index })
	for _, b := range blocks {
		instrs = append(instrs, b.Instrs...)
	}
	ws := e.writeSetOf(instrs, func(ins ssa.Instruction) bool { return li.blocks[ins.Block()] })
	e.applyHavoc(ws, st)
}

// writeSetOf computes the heap locations and local cells written by a region of instructions.
func (e *Enc) writeSetOf(instrs []ssa.Instruction, inRegion func(ssa.Instruction) bool) *writeSet {
	ws := &writeSet{coarse: map[string]string{}, precise: map[string][]Term{}, sorts: map[string]string{}, locals: map[*ssa.Alloc]bool{}}
	inLoop := func(v ssa.Value) bool {
		if ins, ok := v.(ssa.Instruction); ok {
			return inRegion(ins)
		}
		return false
	}
	var addrWrite func(addr ssa.Value)
	addrWrite = func(addr ssa.Value) {
		switch a := addr.(type) {
		case *ssa.Alloc:
			if a.Heap {
				// heap cell object
				ws.alloc = true
				e.coarseAllOf(ws, a.Type().(*types.Pointer).Elem())
			} else {
				ws.locals[a] = true
			}
		case *ssa.FieldAddr:
			pt := a.X.Type().Underlying().(*types.Pointer).Elem()
			if _, isLoc := a.X.(*ssa.Alloc); isLoc && !a.X.(*ssa.Alloc).Heap {
				ws.locals[a.X.(*ssa.Alloc)] = true
				return
			}
			switch a.X.(type) {
			case *ssa.FieldAddr, *ssa.IndexAddr:
				addrWrite(a.X)
				return
			}
			si := e.reg.structOf(pt)
			name := fieldHeapName(si, a.Field)
			srt := arrSort(si.fields[a.Field].sort)
			ws.sorts[name] = srt
			if !inLoop(a.X) {
				if r, ok := e.vals[a.X]; ok && r.Loc == nil {
					ws.precise[name] = append(ws.precise[name], r.T)
					return
				}
			}
			ws.coarse[name] = srt
		case *ssa.IndexAddr:
			switch xt := a.X.Type().Underlying().(type) {
			case *types.Slice:
				name := elemHeapName(xt.Elem())
				srt := arrSort(arrSort(e.reg.sortOf(xt.Elem())))
				ws.sorts[name] = srt
				// slice loaded (inside the region) from a field of an object defined outside it
				if ld, ok := a.X.(*ssa.UnOp); ok && inLoop(a.X) {
					if fa, ok := ld.X.(*ssa.FieldAddr); ok && !inLoop(fa.X) {
						if r, ok := e.vals[fa.X]; ok && r.Loc == nil {
							pt := fa.X.Type().Underlying().(*types.Pointer).Elem()
							si := e.reg.structOf(pt)
							ws.deferred = append(ws.deferred, deferredWrite{elemHeap: name, fieldHeap: fieldHeapName(si, fa.Field), fieldSort: arrSort(si.fields[fa.Field].sort), base: r.T})
							return
						}
					}
				}
				if !inLoop(a.X) {
					if r, ok := e.vals[a.X]; ok && r.Loc == nil {
						ws.precise[name] = append(ws.precise[name], Term{app("Slice_arr", r.T.S), sInt})
						return
					}
				}
				ws.coarse[name] = srt
			case *types.Pointer:
				el := xt.Elem().Underlying().(*types.Array).Elem()
				name := elemHeapName(el)
				ws.coarse[name] = arrSort(arrSort(e.reg.sortOf(el)))
			}
		case *ssa.Global:
			pt := a.Type().(*types.Pointer).Elem()
			ws.coarse["Glob."+a.Name()] = e.reg.sortOf(pt)
		default:
			panic(unsupported{fmt.Sprintf("store through %T in loop", addr)})
		}
	}
	type pendingCall struct {
		call   *ssa.Call
		fc     *FuncC
		callee *ssa.Function
	}
	var calls []pendingCall
	{
		for _, in := range instrs {
			switch x := in.(type) {
			case *ssa.Store:
				addrWrite(x.Addr)
			case *ssa.Alloc:
				if x.Heap {
					ws.alloc = true
					e.coarseAllOf(ws, x.Type().(*types.Pointer).Elem())
				} else {
					ws.locals[x] = true
				}
			case *ssa.MakeSlice:
				ws.alloc = true
				el := x.Type().Underlying().(*types.Slice).Elem()
				// fresh arrays only: contents of existing arrays unchanged; handled as coarse for simplicity of merge
				name := elemHeapName(el)
				srt := arrSort(arrSort(e.reg.sortOf(el)))
				ws.sorts[name] = srt
				ws.coarse[name] = srt
			case *ssa.Send:
				et := x.Chan.Type().Underlying().(*types.Chan).Elem()
				nName, lName, lSort := chanGhost(e, et)
				ws.coarse[nName], ws.coarse[lName] = arrSort(sInt), arrSort(lSort)
				ws.sorts[nName], ws.sorts[lName] = arrSort(sInt), arrSort(lSort)
			case *ssa.MakeMap, *ssa.MakeChan, *ssa.MakeClosure:
				ws.alloc = true
			case *ssa.MapUpdate:
				mt := x.Map.Type().Underlying().(*types.Map)
				d, v := mapHeapNames(mt)
				ws.coarse[d] = arrSort(arrSort2(e.reg.sortOf(mt.Key()), sBool))
				ws.coarse[v] = arrSort(arrSort2(e.reg.sortOf(mt.Key()), e.reg.sortOf(mt.Elem())))
				ws.sorts[d], ws.sorts[v] = ws.coarse[d], ws.coarse[v]
			case *ssa.Call:
				ws.alloc = true
				if x.Call.IsInvoke() {
					recvT := x.Call.Value.Type()
					name := "iface:" + types.TypeString(recvT, func(p *types.Package) string { return "" }) + "." + x.Call.Method.Name()
					if fc := e.p.cs.Funcs[name]; fc != nil {
						e.staticSelf = map[string]types.Type{"self": recvT}
						for _, t := range fc.Mod {
							e.targetWrites(ws, x, nil, t)
						}
						e.staticSelf = nil
					}
					continue
				}
				if callee := x.Call.StaticCallee(); callee != nil {
					if fc := e.p.cs.Funcs[funcName(callee)]; fc != nil {
						calls = append(calls, pendingCall{x, fc, callee})
						continue
					}
				}
				if _, isB := x.Call.Value.(*ssa.Builtin); !isB && x.Call.StaticCallee() == nil {
					// dynamic call: every candidate's frame
					for _, m := range e.p.funcValueCandidates(x.Call.Signature()) {
						if fc := e.p.cs.Funcs[funcName(m)]; fc != nil {
							calls = append(calls, pendingCall{x, fc, m})
						}
					}
					continue
				}
				if _, isB := x.Call.Value.(*ssa.Builtin); isB {
					if x.Call.Value.Name() == "append" {
						el := x.Type().Underlying().(*types.Slice).Elem()
						name := elemHeapName(el)
						srt := arrSort(arrSort(e.reg.sortOf(el)))
						ws.coarse[name] = srt
					}
					if x.Call.Value.Name() == "clear" {
						switch u := x.Call.Args[0].Type().Underlying().(type) {
						case *types.Slice:
							name := elemHeapName(u.Elem())
							ws.coarse[name] = arrSort(arrSort(e.reg.sortOf(u.Elem())))
						case *types.Map:
							d, _ := mapHeapNames(u)
							ws.coarse[d] = arrSort(arrSort2(e.reg.sortOf(u.Key()), sBool))
						}
					}
					if x.Call.Value.Name() == "copy" {
						el := x.Call.Args[0].Type().Underlying().(*types.Slice).Elem()
						name := elemHeapName(el)
						ws.coarse[name] = arrSort(arrSort(e.reg.sortOf(el)))
					}
					continue
				}
			}
		}
	}
	// callee modifies clauses
	for _, pc := range calls {
		for _, t := range pc.fc.Mod {
			e.targetWrites(ws, pc.call, pc.callee, t)
		}
	}
	return ws
}

func (e *Enc) applyHavoc(ws *writeSet, st *State) {
	// deferred element writes: precise when the field holding the slice is not itself written
	for _, d := range ws.deferred {
		_, c := ws.coarse[d.fieldHeap]
		_, p := ws.precise[d.fieldHeap]
		if c || p {
			ws.coarse[d.elemHeap] = ws.sorts[d.elemHeap]
			continue
		}
		h := st.heapGet(e, d.fieldHeap, d.fieldSort)
		ws.precise[d.elemHeap] = append(ws.precise[d.elemHeap], e.def("hav_arr", Term{app("Slice_arr", tSelect(h, d.base).S), sInt}))
	}
	if ws.alloc {
		na := e.havoc("alloc", sInt)
		e.emit("(assert (>= %s %s))", na.S, st.alloc.S)
		st.alloc = na
	}
	oldHeap := map[string]Term{}
	for _, name := range sortedKeys(ws.coarse) {
		if strings.HasPrefix(name, "G.chan.") {
			oldHeap[name] = st.heapGet(e, name, ws.coarse[name])
		}
		st.heap[name] = e.havoc(name, ws.coarse[name])
		if ax := e.heapTypingAlloc(name, st.heap[name], st.alloc.S); ax != "" {
			e.emit("%s", ax)
		}
	}
	for _, name := range sortedKeys(oldHeap) {
		if strings.HasPrefix(name, "G.chan.log.") {
			if n0, ok := oldHeap["G.chan.nsent"]; ok {
				e.appendOnly(n0, oldHeap[name], st.heap["G.chan.nsent"], st.heap[name], nil)
			}
		}
	}
	for _, name := range sortedKeys(ws.precise) {
		if _, c := ws.coarse[name]; c {
			continue
		}
		h := st.heapGet(e, name, ws.sorts[name])
		for _, ref := range ws.precise[name] {
			elemSort := tSelect(h, ref).Sort
			cell := e.havoc(name+".cell", elemSort)
			e.cellTyping(name, cell)
			h = tStore(h, ref, cell)
		}
		st.heap[name] = e.def(name, h)
	}
	for a := range ws.locals {
		if _, ok := st.locals[a]; ok {
			et := a.Type().(*types.Pointer).Elem()
			st.locals[a] = e.havoc("loc_"+a.Comment, e.reg.sortOf(et))
			e.emit("(assert %s)", tAnd(e.reg.rangeFact(et, st.locals[a]), e.refsBelow(et, st.locals[a], st.alloc.S)).S) // a Go value of its type; its references are allocated
		}
	}
}

func arrSort2(k, v string) string { return "(Array " + k + " " + v + ")" }

func mapHeapNames(mt *types.Map) (string, string) {
	k := typeKey(mt.Key()) + "." + typeKey(mt.Elem())
	return "MD." + k, "MV." + k
}

func (e *Enc) coarseAllOf(ws *writeSet, t types.Type) {
	if _, ok := t.Underlying().(*types.Struct); ok {
		si := e.reg.structOf(t)
		for k := range si.fields {
			ws.coarse[fieldHeapName(si, k)] = arrSort(si.fields[k].sort)
		}
	}
}

// targetWrites adds the heap locations named by a callee's modifies target to a loop write set.
func (e *Enc) targetWrites(ws *writeSet, call *ssa.Call, callee *ssa.Function, t Target) {
	// type the target by evaluating it symbolically with dummy values is heavy;
	// we only need the heap names, so walk the types.
	typeOf := func(x Expr) types.Type { return e.staticType(callee, x) }
	if t.Ghost {
		bt := typeOf(t.Base)
		if n, isNamed := bt.(*types.Named); isNamed {
			if _, isIface := n.Underlying().(*types.Interface); isIface {
				for _, f := range e.p.ghostFields(n.Obj().Name(), t.Field) {
					ws.coarse["G."+n.Obj().Name()+"."+f] = arrSort(e.p.cs.Ghosts[n.Obj().Name()+"."+f])
				}
				return
			}
		}
		if bt != nil {
			d, _ := derefType(bt)
			si := e.reg.structOf(d)
			for _, f := range e.p.ghostFields(si.goName, t.Field) {
				ws.coarse["G."+si.goName+"."+f] = arrSort(e.p.cs.Ghosts[si.goName+"."+f])
			}
		}
		return
	}
	if t.Chan {
		bt := typeOf(t.Base)
		ct := bt.Underlying().(*types.Chan)
		nName, lName, lSort := chanGhost(e, ct.Elem())
		ws.coarse[nName], ws.coarse[lName] = arrSort(sInt), arrSort(lSort)
		ws.sorts[nName], ws.sorts[lName] = arrSort(sInt), arrSort(lSort)
		return
	}
	if t.Elems {
		bt := typeOf(t.Base)
		if mt, ok := bt.Underlying().(*types.Map); ok {
			dName, vName, _, _, dSort, vArrSort := e.mapSorts(mt)
			ws.coarse[dName], ws.coarse[vName] = dSort, vArrSort
			ws.sorts[dName], ws.sorts[vName] = dSort, vArrSort
			return
		}
		sl, ok := bt.Underlying().(*types.Slice)
		if !ok {
			panic(evalError{"modifies target " + t.Text + ": not a slice"})
		}
		name := elemHeapName(sl.Elem())
		ws.coarse[name] = arrSort(arrSort(e.reg.sortOf(sl.Elem())))
		return
	}
	bt := typeOf(t.Base)
	d, _ := derefType(bt)
	si := e.reg.structOf(d)
	if t.Field == "*" {
		for k := range si.fields {
			ws.coarse[fieldHeapName(si, k)] = arrSort(si.fields[k].sort)
		}
		return
	}
	k := si.fieldIndex(t.Field)
	if k < 0 {
		panic(evalError{"modifies target " + t.Text + ": no such field"})
	}
	ws.coarse[fieldHeapName(si, k)] = arrSort(si.fields[k].sort)
}

// staticType computes the Go type of a contract path expression over the parameters of fn.
func (e *Enc) staticType(fn *ssa.Function, x Expr) types.Type {
	switch x := x.(type) {
	case *EIdent:
		if fn != nil {
			for _, p := range fn.Params {
				if p.Name() == x.Name {
					return p.Type()
				}
			}
		}
		if t, ok := e.staticSelf[x.Name]; ok {
			return t
		}
		panic(evalError{"unknown parameter " + x.Name + " in modifies target of " + funcName(fn)})
	case *ESel:
		bt := e.staticType(fn, x.X)
		d, _ := derefType(bt)
		si := e.reg.structOf(d)
		k := si.fieldIndex(x.F)
		if k < 0 {
			panic(evalError{"no field " + x.F})
		}
		return si.fields[k].typ
	case *EIndex:
		bt := e.staticType(fn, x.X)
		if sl, ok := bt.Underlying().(*types.Slice); ok {
			return sl.Elem()
		}
	case *ECall:
		if x.Fn == "old" {
			return e.staticType(fn, x.Args[0])
		}
	}
	panic(evalError{"cannot type modifies path " + exprString(x)})
}

// ---------- modifies targets ----------

func hasWild(x Expr) bool {
	switch x := x.(type) {
	case *EIndex:
		if id, ok := x.I.(*EIdent); ok && id.Name == "*" {
			return true
		}
		return hasWild(x.X)
	case *ESel:
		return hasWild(x.X)
	}
	return false
}

func replaceWild(x Expr, v string) Expr {
	switch x := x.(type) {
	case *EIndex:
		if id, ok := x.I.(*EIdent); ok && id.Name == "*" {
			return &EIndex{X: replaceWild(x.X, v), I: &EIdent{Name: v}}
		}
		return &EIndex{X: replaceWild(x.X, v), I: x.I}
	case *ESel:
		return &ESel{X: replaceWild(x.X, v), F: x.F}
	}
	return x
}

func wildRange(x Expr) Expr {
	// the slice expression that is indexed by the wildcard
	switch x := x.(type) {
	case *EIndex:
		if id, ok := x.I.(*EIdent); ok && id.Name == "*" {
			return x.X
		}
		return wildRange(x.X)
	case *ESel:
		return wildRange(x.X)
	}
	return nil
}

// evalTarget evaluates a modifies target in context c (state c.st) to heap locations.
func (e *Enc) evalTarget(c *Ctx, t Target) []modRef {
	var out []modRef
	if t.Ghost {
		b := c.eval(t.Base)
		if n, isNamed := b.GT.(*types.Named); isNamed {
			if _, isIface := n.Underlying().(*types.Interface); isIface {
				ref := e.def("modref", b.T)
				for _, f := range e.p.ghostFields(n.Obj().Name(), t.Field) {
					out = append(out, modRef{t: t, heapName: "G." + n.Obj().Name() + "." + f, heapSort: arrSort(e.p.cs.Ghosts[n.Obj().Name()+"."+f]), ref: ref})
				}
				return out
			}
		}
		d, _ := derefType(b.GT)
		si := e.reg.structOf(d)
		ref := e.def("modref", b.T)
		for _, f := range e.p.ghostFields(si.goName, t.Field) {
			out = append(out, modRef{t: t, heapName: "G." + si.goName + "." + f, heapSort: arrSort(e.p.cs.Ghosts[si.goName+"."+f]), ref: ref})
		}
		return out
	}
	if hasWild(t.Base) {
		// quantified object set
		rng := wildRange(t.Base)
		qv := "w$j"
		be := replaceWild(t.Base, qv)
		mk := func(heapName, heapSort string, elems bool) modRef {
			return modRef{t: t, heapName: heapName, heapSort: heapSort, wild: true, elems: elems, wildCond: func(r Term) Term {
				n := e.freshName("q_j")
				sub := c.with(map[string]CVal{qv: {T: Term{n, sInt}}})
				e.inQuant++
				lenT := sub.eval(&ECall{Fn: "len", Args: []Expr{rng}}).T
				bv := sub.eval(be)
				var refT Term
				if elems {
					refT = Term{app("Slice_arr", bv.T.S), sInt}
				} else {
					refT = bv.T
				}
				e.inQuant--
				return Term{fmt.Sprintf("(exists ((%s Int)) (and (<= 0 %s) (< %s %s) (= %s %s)))", n, n, n, lenT.S, r.S, refT.S), sBool}
			}}
		}
		bt := e.typeOfExpr(c, replaceWild(t.Base, "0$"))
		if t.Elems {
			sl := bt.Underlying().(*types.Slice)
			out = append(out, mk(elemHeapName(sl.Elem()), arrSort(arrSort(e.reg.sortOf(sl.Elem()))), true))
			return out
		}
		d, _ := derefType(bt)
		si := e.reg.structOf(d)
		if t.Field == "*" {
			for k := range si.fields {
				out = append(out, mk(fieldHeapName(si, k), arrSort(si.fields[k].sort), false))
			}
			return out
		}
		k := si.fieldIndex(t.Field)
		if k < 0 {
			cfail("modifies %s: no field %s", t.Text, t.Field)
		}
		out = append(out, mk(fieldHeapName(si, k), arrSort(si.fields[k].sort), false))
		return out
	}
	if t.Chan {
		b := c.eval(t.Base)
		ct, ok := b.GT.Underlying().(*types.Chan)
		if !ok {
			cfail("modifies chan %s: not a channel", t.Text)
		}
		nName, lName, lSort := chanGhost(e, ct.Elem())
		ref := e.def("modchan", b.T)
		return []modRef{{t: t, heapName: nName, heapSort: arrSort(sInt), ref: ref}, {t: t, heapName: lName, heapSort: arrSort(lSort), ref: ref}}
	}
	b := c.eval(t.Base)
	if t.Elems {
		if mt, ok := b.GT.Underlying().(*types.Map); ok {
			dName, vName, _, _, dSort, vArrSort := e.mapSorts(mt)
			ref := e.def("modmap", b.T)
			out = append(out, modRef{t: t, heapName: dName, heapSort: dSort, ref: ref}, modRef{t: t, heapName: vName, heapSort: vArrSort, ref: ref})
			return out
		}
		sl, ok := b.GT.Underlying().(*types.Slice)
		if !ok {
			cfail("modifies %s: base is not a slice", t.Text)
		}
		m := modRef{t: t, heapName: elemHeapName(sl.Elem()), heapSort: arrSort(arrSort(e.reg.sortOf(sl.Elem()))), elems: true, ref: e.def("modarr", Term{app("Slice_arr", b.T.S), sInt})}
		if t.Index != nil {
			ix := e.def("modidx", sidx(b.T, c.evalInt(t.Index)))
			m.idx = &ix
		}
		out = append(out, m)
		return out
	}
	d, isPtr := derefType(b.GT)
	if !isPtr {
		cfail("modifies %s: base is not a pointer", t.Text)
	}
	si := e.reg.structOf(d)
	ref := e.def("modref", b.T)
	if t.Field == "*" {
		for k := range si.fields {
			out = append(out, modRef{t: t, heapName: fieldHeapName(si, k), heapSort: arrSort(si.fields[k].sort), ref: ref})
		}
		return out
	}
	k := si.fieldIndex(t.Field)
	if k < 0 {
		cfail("modifies %s: no field %s", t.Text, t.Field)
	}
	out = append(out, modRef{t: t, heapName: fieldHeapName(si, k), heapSort: arrSort(si.fields[k].sort), ref: ref})
	return out
}

func (e *Enc) typeOfExpr(c *Ctx, x Expr) types.Type {
	sub := c.with(map[string]CVal{"0$": {T: tInt(0)}})
	e.inQuant++
	defer func() { e.inQuant-- }()
	return sub.eval(x).GT
}

// allowedWrite returns the condition under which a write to (heapName, ref) is inside the frame.
func (e *Enc) allowedWrite(heapName string, ref Term, idx *Term) Term {
	conds := []Term{Term{app(">=", ref.S, "alloc@0"), sBool}}
	if strings.HasPrefix(heapName, "E.") {
		// the nil array has no elements: naming it in a frame permits nothing (an element write would fail its
		// bounds obligation first)
		conds = append(conds, tEq(ref, tInt(0)))
	}
	for _, m := range e.modRefs {
		if m.heapName != heapName {
			continue
		}
		if m.wild {
			conds = append(conds, m.wildCond(ref))
		} else if m.idx != nil {
			if idx != nil {
				conds = append(conds, tAnd(tEq(ref, m.ref), tEq(*idx, *m.idx)))
			}
		} else {
			conds = append(conds, tEq(ref, m.ref))
		}
	}
	return tOr(conds...)
}

func (e *Enc) frameCheck(l *Loc, pos token.Pos, what string) {
	if e.fc == nil {
		return
	}
	switch l.kind {
	case 0:
		return
	case 1, 2:
		var ix *Term
		if l.kind == 2 {
			ix = &l.idx
		}
		cond := e.allowedWrite(l.heapName, l.ref, ix)
		if cond.S == "true" {
			return
		}
		label := e.p.srcLine(pos)
		if label == "" {
			label = what
		}
		e.oblige("frame", label, e.fc.frameTags(), cond, pos)
	case 3:
		e.oblige("frame", "write to package-level variable "+l.heapName, e.fc.frameTags(), tFalse, pos)
	}
}

func (fc *FuncC) frameTags() []string { return fc.PanicTags }

var _ = strings.TrimSpace

func domDepth(b *ssa.BasicBlock) int {
	d := 0
	for x := b.Idom(); x != nil; x = x.Idom() {
		d++
	}
	return d
}

// cellTyping asserts that a havocked heap cell (one object's field, or one
// backing array, or one element) holds values of its Go type.
func (e *Enc) cellTyping(name string, cell Term) {
	heapTypeMu.Lock()
	t := heapTypes[name]
	heapTypeMu.Unlock()
	if t == nil {
		return
	}
	if strings.HasPrefix(cell.Sort, "(Array Int ") && strings.HasPrefix(name, "E.") && cell.Sort == arrSort(e.reg.sortOf(t)) {
		el := Term{app("select", cell.S, "i!"), e.reg.sortOf(t)}
		f := e.reg.rangeFact(t, el)
		if f.S != "true" {
			e.emit("(assert (forall ((i! Int)) (! %s :pattern (%s))))", f.S, el.S)
		}
		return
	}
	f := e.reg.rangeFact(t, cell)
	if f.S != "true" {
		e.emit("(assert %s)", f.S)
	}
}

// ghostFields: the ghost fields of a struct named by a modifies target (f or *).
func (p *Program) ghostFields(structName, f string) []string {
	if f != "*" {
		if _, ok := p.cs.Ghosts[structName+"."+f]; !ok {
			panic(evalError{"unknown ghost field " + structName + "." + f})
		}
		return []string{f}
	}
	var out []string
	for _, k := range sortedKeys(p.cs.Ghosts) {
		if strings.HasPrefix(k, structName+".") {
			out = append(out, k[len(structName)+1:])
		}
	}
	return out
}
