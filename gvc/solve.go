package main

// SMT portfolio: every query is raced on z3 5.1.0, z3 4.8.12 and cvc5 1.0.3.

import (
	"bytes"
	"context"
	"crypto/sha256"
	"encoding/hex"
	"fmt"
	"os"
	"os/exec"
	"path/filepath"
	"strings"
	"sync"
	"sync/atomic"
	"time"
)

type solverSpec struct {
	name string
	args func(file string, timeoutS int, seed int) []string
}

var solvers = []solverSpec{
	{"z3-5.1.0", func(f string, t, seed int) []string {
		return []string{"z3-new", "-smt2", fmt.Sprintf("-T:%d", t), fmt.Sprintf("smt.random_seed=%d", seed), f}
	}},
	{"z3-4.8.12", func(f string, t, seed int) []string {
		return []string{"z3", "-smt2", fmt.Sprintf("-T:%d", t), fmt.Sprintf("smt.random_seed=%d", seed), f}
	}},
	{"cvc5-1.0.3", func(f string, t, seed int) []string {
		return []string{"cvc5", fmt.Sprintf("--tlimit=%d", t*1000), fmt.Sprintf("--seed=%d", seed), f}
	}},
}

var solverSlots = make(chan struct{}, 16)

type solveResult struct {
	Result string // unsat sat unknown error
	Solver string
	TimeS  float64
	Output string
	All    map[string]string
}

var fileCtr int64
var workDir string
var solverSeed int

func initWorkDir() {
	base := os.Getenv("GVC_WORK")
	if base == "" {
		base = "/verif/work"
	}
	workDir = filepath.Join(base, fmt.Sprintf("run-%d", os.Getpid()))
	os.MkdirAll(workDir, 0o755)
}

func cleanupWorkDir() {
	if workDir != "" && os.Getenv("GVC_KEEP") == "" {
		os.RemoveAll(workDir)
	}
}

var statMu sync.Mutex
var statQueries int
var statSolverTime float64

// solve races the solvers on one script. wantModel adds (get-model) handling for sat answers.
func solveSeed(script string, timeoutS int, only string, seed int) solveResult {
	sum := sha256.Sum256([]byte(script))
	file := filepath.Join(workDir, fmt.Sprintf("%s-%d.smt2", hex.EncodeToString(sum[:8]), atomic.AddInt64(&fileCtr, 1)))
	if err := os.WriteFile(file, []byte(script), 0o644); err != nil {
		return solveResult{Result: "error", Output: err.Error()}
	}
	if os.Getenv("GVC_KEEP") == "" {
		defer os.Remove(file)
	}
	ctx, cancel := context.WithCancel(context.Background())
	defer cancel()
	type one struct {
		solver string
		res    string
		out    string
		t      float64
	}
	ch := make(chan one, len(solvers))
	n := 0
	for _, s := range solvers {
		if only != "" && s.name != only {
			continue
		}
		n++
		go func(s solverSpec) {
			solverSlots <- struct{}{}
			defer func() { <-solverSlots }()
			if ctx.Err() != nil {
				ch <- one{s.name, "cancelled", "", 0}
				return
			}
			args := s.args(file, timeoutS, seed)
			cctx, ccancel := context.WithTimeout(ctx, time.Duration(timeoutS+5)*time.Second)
			defer ccancel()
			cmd := exec.CommandContext(cctx, args[0], args[1:]...)
			var out bytes.Buffer
			cmd.Stdout = &out
			cmd.Stderr = &out
			t0 := time.Now()
			cmd.Run()
			dt := time.Since(t0).Seconds()
			o := out.String()
			first := ""
			for _, ln := range strings.Split(o, "\n") {
				ln = strings.TrimSpace(ln)
				if ln == "" || strings.HasPrefix(ln, "WARNING:") {
					continue // z3 warns about patterns it drops; the answer follows
				}
				first = ln
				break
			}
			res := "unknown"
			switch {
			case first == "unsat":
				res = "unsat"
			case first == "sat":
				res = "sat"
			case strings.HasPrefix(first, "(error") || strings.Contains(first, "rror"):
				res = "error"
			case first == "timeout" || first == "unknown" || first == "":
				res = "unknown"
			}
			if ctx.Err() != nil && res != "unsat" && res != "sat" {
				res = "cancelled"
			}
			ch <- one{s.name, res, o, dt}
		}(s)
	}
	final := solveResult{Result: "unknown", All: map[string]string{}}
	var total float64
	for i := 0; i < n; i++ {
		r := <-ch
		total += r.t
		final.All[r.solver] = r.res
		if r.res == "error" && final.Result == "unknown" {
			final.Output = r.solver + ": " + r.out
		}
		if (r.res == "unsat" || r.res == "sat") && final.Result != "unsat" && final.Result != "sat" {
			final.Result = r.res
			final.Solver = r.solver
			final.TimeS = r.t
			final.Output = r.out
			cancel()
		}
	}
	if final.Result == "unknown" {
		final.TimeS = total
		allErr := n > 0
		for _, v := range final.All {
			if v != "error" {
				allErr = false
			}
		}
		if allErr {
			final.Result = "error"
		}
	}
	statMu.Lock()
	statQueries++
	statSolverTime += total
	statMu.Unlock()
	return final
}

// solveStaged first asks z3 5.1.0 alone with a short timeout (it wins most
// races), then races the whole portfolio with the full timeout.
func solveStaged(script string, timeoutS int) solveResult {
	return solveStagedF(script, timeoutS, false)
}

// solveLeaf is solveStaged for a query whose failure would be reported: after the seed retries it
// makes one last attempt with four times the time limit, so that a loaded machine does not turn a
// slow proof into an alarm.
func solveLeaf(script string, timeoutS int) solveResult {
	return solveStagedF(script, timeoutS, true)
}

func solveStagedF(script string, timeoutS int, final bool) solveResult {
	if os.Getenv("GVC_NOSTAGE") == "" {
		r := solve(script, 2, "z3-5.1.0")
		if r.Result == "unsat" || r.Result == "sat" {
			return r
		}
	}
	r := solve(script, timeoutS, "")
	// solver heuristics depend on the random seed: an obligation is reported as undischarged only
	// after it resisted three different seeds on all three solvers
	for extra := 1; extra <= 2 && r.Result != "unsat" && r.Result != "sat"; extra++ {
		r2 := solveSeed(script, timeoutS, "", solverSeed+7919*extra)
		r2.TimeS += r.TimeS
		r = r2
	}
	if final && r.Result != "unsat" && r.Result != "sat" {
		r2 := solveSeed(script, 4*timeoutS, "", solverSeed+104729)
		r2.TimeS += r.TimeS
		r = r2
	}
	return r
}

func solve(script string, timeoutS int, only string) solveResult {
	return solveSeed(script, timeoutS, only, solverSeed)
}
