package main

// conjuncts splits a clause into its top-level conjuncts. With deep=true, calls of
// pure functions whose body is a conjunction are expanded (syntactic substitution).
func (p *Program) conjuncts(x Expr, deep bool) []Expr {
	switch x := x.(type) {
	case *EBin:
		if x.Op == "&&" {
			return append(p.conjuncts(x.L, deep), p.conjuncts(x.R, deep)...)
		}
		if x.Op == "==>" {
			if _, isLet := x.R.(*ELet); !deep && !isLet {
				break
			}
			var out []Expr
			for _, r := range p.conjuncts(x.R, deep) {
				out = append(out, &EBin{Op: "==>", L: x.L, R: r})
			}
			return out
		}
	case *ELet:
		cs := p.conjuncts(x.Body, deep)
		if len(cs) > 1 {
			var out []Expr
			for _, c := range cs {
				out = append(out, &ELet{Name: x.Name, Val: x.Val, Body: c})
			}
			return out
		}
	case *ECall:
		if deep {
			if pf, ok := p.cs.Pures[x.Fn]; ok && len(pf.Params) == len(x.Args) {
				sub := map[string]Expr{}
				for i, pa := range pf.Params {
					sub[pa.Name] = x.Args[i]
				}
				body := substExpr(pf.Body, sub)
				cs := p.conjuncts(body, deep)
				if len(cs) > 1 {
					return cs
				}
			}
		}
	}
	return []Expr{x}
}

func substExpr(x Expr, sub map[string]Expr) Expr {
	switch x := x.(type) {
	case *EIdent:
		if r, ok := sub[x.Name]; ok {
			return r
		}
		return x
	case *EBin:
		return &EBin{Op: x.Op, L: substExpr(x.L, sub), R: substExpr(x.R, sub)}
	case *EUn:
		return &EUn{Op: x.Op, X: substExpr(x.X, sub)}
	case *ESel:
		return &ESel{X: substExpr(x.X, sub), F: x.F}
	case *EIndex:
		return &EIndex{X: substExpr(x.X, sub), I: substExpr(x.I, sub)}
	case *EStore:
		return &EStore{X: substExpr(x.X, sub), I: substExpr(x.I, sub), V: substExpr(x.V, sub)}
	case *EUpd:
		return &EUpd{X: substExpr(x.X, sub), F: x.F, V: substExpr(x.V, sub)}
	case *ECall:
		var as []Expr
		for _, a := range x.Args {
			as = append(as, substExpr(a, sub))
		}
		return &ECall{Fn: x.Fn, Args: as}
	case *EQuant:
		inner := map[string]Expr{}
		for k, v := range sub {
			inner[k] = v
		}
		for _, v := range x.Vars {
			delete(inner, v)
		}
		return &EQuant{Forall: x.Forall, Vars: x.Vars, Sorts: x.Sorts, Body: substExpr(x.Body, inner)}
	case *ELet:
		inner := map[string]Expr{}
		for k, v := range sub {
			inner[k] = v
		}
		delete(inner, x.Name)
		return &ELet{Name: x.Name, Val: substExpr(x.Val, sub), Body: substExpr(x.Body, inner)}
	}
	return x
}
