package main

import (
	"fmt"
	"go/types"
	"os"
	"sort"
	"strings"
	"sync"
)

// verifyAxioms proves each axiom of the UF arithmetic mode against native div/mod.
func verifyAxioms(timeoutS int) *FuncResult {
	res := &FuncResult{Name: "arith-axioms", Cases: len(ufAxiomBodies)}
	var mu sync.Mutex
	var wg sync.WaitGroup
	for i, a := range ufAxiomBodies {
		i, a := i, a
		wg.Add(1)
		go func() {
			defer wg.Done()
			body := strings.ReplaceAll(strings.ReplaceAll(a.body, "(umod ", "(mod "), "(udiv ", "(div ")
			q := "(set-logic ALL)\n(declare-const x Int)\n(declare-const y Int)\n(assert (not " + body + "))\n(check-sat)\n"
			r := solve(q, timeoutS, "")
			o := &Obl{ID: i + 1, Name: "arith-axioms/lemma[" + a.name + "]", Kind: "lemma", Func: "arith-axioms", Result: r.Result, Solver: r.Solver, TimeS: r.TimeS}
			mu.Lock()
			res.Obls = append(res.Obls, o)
			mu.Unlock()
		}()
	}
	wg.Wait()
	return res
}

func runAxioms() int {
	r := verifyAxioms(30)
	bad := 0
	for _, o := range r.Obls {
		fmt.Printf("%-8s %s %s %.2fs\n", o.Result, o.Name, o.Solver, o.TimeS)
		if o.Result != "unsat" {
			bad++
		}
	}
	if bad > 0 {
		return 1
	}
	return 0
}

// verifyLemma proves a lemma of the contract file (no program state). The structured
// form has typed parameters (free constants), split cases (parameters fixed to numerals,
// partially evaluated), assumptions and one obligation per `show` conjunct.
func verifyLemma(p *Program, l *Lemma, timeoutS int) *FuncResult {
	res := &FuncResult{Name: "lemma " + l.Name, Cases: 1}
	cases := splitCases(l.Splits)
	if len(l.Splits) > 0 {
		cases = cases[:len(cases)-1] // parameters range over the split values only: no remainder case
	}
	res.Cases = len(cases)
	var mu sync.Mutex
	var wg sync.WaitGroup
	sem := make(chan struct{}, 24)
	for _, cs := range cases {
		cs := cs
		if f := os.Getenv("GVC_CASE"); f != "" && !strings.Contains(cs.label, f) {
			continue
		}
		wg.Add(1)
		go func() {
			defer wg.Done()
			sem <- struct{}{}
			defer func() { <-sem }()
			e := newEnc(p, nil, nil)
			type goalT struct {
				name string
				t    Term
			}
			var goals []goalT
			var errMsg string
			func() {
				defer func() {
					if r := recover(); r != nil {
						if ee, ok := r.(evalError); ok {
							errMsg = "contract error in lemma " + l.Name + ": " + ee.msg
							return
						}
						panic(r)
					}
				}()
				st := &State{heap: map[string]Term{}, alloc: Term{"alloc@0", sInt}}
				e.heapInits["$alloc"] = st.alloc
				e.init = st
				vars := map[string]CVal{}
				for _, pa := range l.Params {
					var cv CVal
					switch {
					case strings.HasPrefix(pa.Type, "[]"):
						et := p.typeByText(pa.Type[2:])
						if et == nil {
							cfail("lemma parameter %s: unknown element type", pa.Name)
						}
						srt := arrSort(e.reg.sortOf(et))
						cv = CVal{T: e.havoc("L_"+pa.Name, srt), GT: types.NewArray(et, 0)}
					case pa.Type == "int":
						cv = CVal{T: e.havoc("L_"+pa.Name, sInt)}
					case pa.Type == "bool":
						cv = CVal{T: e.havoc("L_"+pa.Name, sBool)}
					default:
						t := p.typeByText(pa.Type)
						if t == nil {
							cfail("lemma parameter %s: unknown type %s", pa.Name, pa.Type)
						}
						cv = CVal{T: e.havoc("L_"+pa.Name, e.reg.sortOf(t)), GT: t}
					}
					vars[pa.Name] = cv
				}
				// split parameters are fixed to numerals
				for i, sp := range l.Splits {
					id, ok := sp.E.(*EIdent)
					if !ok {
						cfail("lemma split: parameter name expected")
					}
					vars[id.Name] = CVal{T: tInt(cs.vals[i])}
				}
				c := &Ctx{e: e, st: st, old: st, vars: vars}
				if l.E != nil {
					goals = append(goals, goalT{"lemma/" + l.Name + "[" + l.Text + "]", c.evalBool(l.E)})
					return
				}
				for _, a := range l.Assumes {
					e.emit("(assert %s)", c.evalBool(a.E).S)
				}
				for k, sh := range l.Shows {
					cj := p.conjuncts(sh.E, deepSplit)
					for j, cx := range cj {
						name := fmt.Sprintf("lemma/%s/show[#%d %s]", l.Name, k+1, sh.Text)
						if len(cj) > 1 {
							name = fmt.Sprintf("lemma/%s/show[#%d.%d %s]", l.Name, k+1, j+1, exprString(cx))
						}
						goals = append(goals, goalT{name, e.def("goal", c.evalBool(cx))})
					}
				}
			}()
			if errMsg != "" {
				mu.Lock()
				res.Err = errMsg
				mu.Unlock()
				return
			}
			prefix := e.script()
			record := func(gs []goalT, r solveResult) {
				mu.Lock()
				for i, g := range gs {
					res.Obls = append(res.Obls, &Obl{ID: i + 1, Name: g.name, Kind: "lemma", Tags: l.Tags, Func: "lemma " + l.Name, Result: r.Result, Solver: r.Solver, TimeS: r.TimeS / float64(len(gs)), Case: strings.TrimSpace(cs.label)})
				}
				mu.Unlock()
			}
			// all goals at once, then individually
			var parts []string
			for _, g := range goals {
				parts = append(parts, g.t.S)
			}
			var r solveResult
			if len(goals) == 1 {
				r = solveLeaf(prefix+"(assert (not "+parts[0]+"))\n(check-sat)\n", timeoutS)
			} else {
				r = solveStaged(prefix+"(assert (not (and "+strings.Join(parts, " ")+" true)))\n(check-sat)\n", timeoutS)
			}
			if r.Result == "unsat" || len(goals) == 1 {
				record(goals, r)
				return
			}
			// the shows of a lemma are proved in order: later ones may use the earlier ones
			var wg2 sync.WaitGroup
			for gi, g := range goals {
				g := g
				var hyp strings.Builder
				for _, h := range goals[:gi] {
					hyp.WriteString("(assert " + h.t.S + ")\n")
				}
				hs := hyp.String()
				wg2.Add(1)
				go func() {
					defer wg2.Done()
					r := solveLeaf(prefix+hs+"(assert (not "+g.t.S+"))\n(check-sat)\n", timeoutS)
					record([]goalT{g}, r)
				}()
			}
			wg2.Wait()
		}()
	}
	wg.Wait()
	sort.SliceStable(res.Obls, func(i, j int) bool { return res.Obls[i].Case+res.Obls[i].Name < res.Obls[j].Case+res.Obls[j].Name })
	return res
}
