package main

import (
	"fmt"
	"strings"
	"sync"
)

// verifyAxioms proves each axiom of the UF arithmetic mode against native div/mod.
func verifyAxioms(timeoutS int) *FuncResult {
	res := &FuncResult{Name: "arith-axioms", Cases: len(ufAxiomBodies)}
	var mu sync.Mutex
	var wg sync.WaitGroup
	for i, a := range ufAxiomBodies {
		i, a := i, a
		wg.Add(1)
		go func() {
			defer wg.Done()
			body := strings.ReplaceAll(strings.ReplaceAll(a.body, "(umod ", "(mod "), "(udiv ", "(div ")
			q := "(set-logic ALL)\n(declare-const x Int)\n(declare-const y Int)\n(assert (not " + body + "))\n(check-sat)\n"
			r := solve(q, timeoutS, "")
			o := &Obl{ID: i + 1, Name: "arith-axioms/lemma[" + a.name + "]", Kind: "lemma", Func: "arith-axioms", Result: r.Result, Solver: r.Solver, TimeS: r.TimeS}
			mu.Lock()
			res.Obls = append(res.Obls, o)
			mu.Unlock()
		}()
	}
	wg.Wait()
	return res
}

func runAxioms() int {
	r := verifyAxioms(30)
	bad := 0
	for _, o := range r.Obls {
		fmt.Printf("%-8s %s %s %.2fs\n", o.Result, o.Name, o.Solver, o.TimeS)
		if o.Result != "unsat" {
			bad++
		}
	}
	if bad > 0 {
		return 1
	}
	return 0
}

// verifyLemma proves a closed lemma of the contract file (no program state).
func verifyLemma(p *Program, l *Lemma, timeoutS int) *FuncResult {
	res := &FuncResult{Name: "lemma " + l.Name, Cases: 1}
	e := newEnc(p, nil, nil)
	var goal Term
	func() {
		defer func() {
			if r := recover(); r != nil {
				if ee, ok := r.(evalError); ok {
					res.Err = "contract error in lemma " + l.Name + ": " + ee.msg
					return
				}
				panic(r)
			}
		}()
		st := &State{heap: map[string]Term{}, alloc: Term{"alloc@0", sInt}}
		e.heapInits["$alloc"] = st.alloc
		e.init = st
		c := &Ctx{e: e, st: st, old: st, vars: map[string]CVal{}}
		goal = c.evalBool(l.E)
	}()
	if res.Err != "" {
		return res
	}
	q := e.script() + "(assert (not " + goal.S + "))\n(check-sat)\n"
	r := solveStaged(q, timeoutS)
	res.Obls = append(res.Obls, &Obl{ID: 1, Name: "lemma/" + l.Name + "[" + l.Text + "]", Kind: "lemma", Tags: l.Tags, Func: "lemma " + l.Name, Result: r.Result, Solver: r.Solver, TimeS: r.TimeS})
	return res
}
